package main

// C20: drives the real mqtttest doubles with a recording testing.TB and writes
// what they did as Coq case terms (see coq/theories/C20Check.v).

import (
	"bytes"
	"errors"
	"fmt"
	"runtime"
	"sort"
	"strings"
	"sync"
	"testing"
	"time"

	"github.com/pascaldekloe/mqtt"
	"github.com/pascaldekloe/mqtt/mqtttest"
)

func init() { runners["C20"] = runC20 }

// ---- error values and their classes ----

var (
	c20ErrA       = errors.New("c20: plain error A")
	c20ErrB       = errors.New("c20: plain error B")
	c20WrapClosed = fmt.Errorf("c20: wrapped: %w", mqtt.ErrClosed)
)

// c20Class projects an error value onto Mocks.errclass.
func c20Class(err error) string {
	var block mqtttest.ExchangeBlock
	switch {
	case err == nil:
		return "CNil"
	case err == c20ErrA:
		return "(COther 0)"
	case err == c20ErrB:
		return "(COther 1)"
	case errors.Is(err, mqtt.ErrCanceled):
		return "CCanceled"
	case err == mqtt.ErrClosed:
		return "CClosed"
	case errors.Is(err, mqtt.ErrClosed):
		return "CWrapClosed"
	case errors.As(err, &block):
		if block.Delay == 0 {
			return "CBlockIndef"
		}
		return "CBlockDelay"
	}
	return "CUnknown"
}

// ---- recording testing.TB ----

const (
	c20PhaseConstruct = -1
	c20PhaseCleanup   = -2
)

// c20TB implements testing.TB. The embedded interface is nil: a method that is
// not overridden below panics, which is recorded like any other panic.
type c20TB struct {
	testing.TB
	mu       sync.Mutex
	phase    int
	fails    map[int][]string // Coq failure terms per phase
	cleanups []func()
}

func newC20TB() *c20TB { return &c20TB{phase: c20PhaseConstruct, fails: map[int][]string{}} }

func (t *c20TB) setPhase(p int) { t.mu.Lock(); t.phase = p; t.mu.Unlock() }
func (t *c20TB) record(f string) {
	t.mu.Lock()
	t.fails[t.phase] = append(t.fails[t.phase], f)
	t.mu.Unlock()
}
func (t *c20TB) failsOf(p int) []string {
	t.mu.Lock()
	defer t.mu.Unlock()
	return append([]string(nil), t.fails[p]...)
}

// c20Failure projects one report onto Mocks.failure. The kind follows from the
// shape of the arguments; only "wrong" versus "miss" of the (un)subscribe mock
// needs the first word of the format.
func c20Failure(format string, args []any) string {
	if len(args) > 0 {
		if n, ok := args[0].(uint64); ok {
			return fmt.Sprintf("(FMissing %d)", n) // Cleanup: want n more
		}
	}
	switch len(args) {
	case 1:
		if _, ok := args[0].(error); ok {
			return "FUnwanted" // ReadSlices mock: t.Error(err)
		}
	case 2:
		return "FUnwanted" // surplus publish / (un)subscribe
	case 3:
		if l, ok := args[1].([]string); ok {
			l = append([]string(nil), l...)
			switch {
			case strings.HasPrefix(format, "no "):
				sort.Strings(l) // map iteration order
				return "(FMiss " + c20Strings(l) + ")"
			case strings.HasPrefix(format, "unwanted "):
				return "(FWrong " + c20Strings(l) + ")"
			}
		}
	case 4:
		return "FMismatch"
	}
	return "FOther"
}

func (t *c20TB) Helper()                           {}
func (t *c20TB) Name() string                      { return "c20" }
func (t *c20TB) Log(args ...any)                   {}
func (t *c20TB) Logf(format string, args ...any)   {}
func (t *c20TB) Errorf(format string, args ...any) { t.record(c20Failure(format, args)) }
func (t *c20TB) Error(args ...any)                 { t.record(c20Failure("", args)) }
func (t *c20TB) Fail()                             { t.record("FOther") }
func (t *c20TB) Failed() bool {
	t.mu.Lock()
	defer t.mu.Unlock()
	return len(t.fails) != 0
}
func (t *c20TB) Cleanup(f func()) { t.mu.Lock(); t.cleanups = append(t.cleanups, f); t.mu.Unlock() }

// Fatalf, Fatal and FailNow end the calling goroutine, like the real ones.
func (t *c20TB) Fatalf(format string, args ...any) { t.record("FFatal"); runtime.Goexit() }
func (t *c20TB) Fatal(args ...any)                 { t.record("FFatal"); runtime.Goexit() }
func (t *c20TB) FailNow()                          { t.record("FFatal"); runtime.Goexit() }

// c20Invoke runs one invocation and stores its outcome in *slot, also when the
// goroutine is on its way out (Goexit) or panicking.
func c20Invoke(slot *string, f func() string) {
	returned := false
	defer func() {
		if returned {
			return
		}
		if r := recover(); r != nil {
			*slot = "OPanic"
			return
		}
		*slot = "OFatal" // runtime.Goexit in progress; the deferred calls keep running
	}()
	*slot = f()
	returned = true
}

// c20RunSeq makes n invocations from one fresh goroutine (the "test
// goroutine"), then runs the registered Cleanup functions last-in first-out.
// It returns (outcome, failures) per invocation that took place, and the
// Cleanup failures.
func c20RunSeq(tb *c20TB, n int, call func(i int) string) (outs []string, fails [][]string, cl []string) {
	slots := make([]string, n)
	done := make(chan struct{})
	go func() {
		defer close(done)
		for i := 0; i < n; i++ {
			tb.setPhase(i)
			c20Invoke(&slots[i], func() string { return call(i) })
			if !strings.HasPrefix(slots[i], "(ORet") {
				return // a panic would have ended the test binary
			}
		}
	}()
	<-done
	for i := 0; i < n && slots[i] != ""; i++ {
		outs = append(outs, slots[i])
		fails = append(fails, tb.failsOf(i))
	}
	tb.setPhase(c20PhaseCleanup)
	done = make(chan struct{})
	go func() {
		defer close(done)
		for i := len(tb.cleanups) - 1; i >= 0; i-- {
			var slot string
			c20Invoke(&slot, func() string { tb.cleanups[i](); return "(ORet CNil)" })
			if slot != "(ORet CNil)" {
				tb.record("FOther")
			}
		}
	}()
	<-done
	return outs, fails, tb.failsOf(c20PhaseCleanup)
}

// ---- Coq terms ----

func c20Strings(l []string) string {
	items := make([]string, len(l))
	for i, s := range l {
		items[i] = coqString(s)
	}
	return coqList(items)
}

func c20Obs(outs []string, fails [][]string) string {
	items := make([]string, len(outs))
	for i := range outs {
		items[i] = fmt.Sprintf("mkres %s %s", outs[i], coqList(fails[i]))
	}
	return coqList(items)
}

func c20Quit(closed bool) <-chan struct{} {
	ch := make(chan struct{})
	if closed {
		close(ch)
	}
	return ch
}

// ---- alphabets ----

var (
	c20Msgs   = [][]byte{[]byte("m0"), []byte("m1")}
	c20Topics = []string{"t0", "t1"}
	c20Errs   = []error{nil, c20ErrA, c20ErrB, mqtt.ErrCanceled, mqtt.ErrClosed, c20WrapClosed}
)

// c20Lists enumerates every list over {0..k-1} with length in [lo, hi].
func c20Lists(k, lo, hi int, f func(l []int)) {
	for n := lo; n <= hi; n++ {
		l := make([]int, n)
		for {
			f(append([]int(nil), l...))
			i := n - 1
			for i >= 0 {
				l[i]++
				if l[i] < k {
					break
				}
				l[i] = 0
				i--
			}
			if i < 0 {
				break
			}
		}
	}
}

func c20RandList(r *rng, k, n int) []int {
	l := make([]int, n)
	for i := range l {
		l[i] = r.intn(k)
	}
	return l
}

// ---- publish mock ----

// want symbols 0..3: message = s&1, topic = s>>1; call symbols 0..7: + quit closed = s>>2.
func c20PubCase(cs *caseSet, r *rng, want, calls []int, kind string) {
	trs := make([]mqtttest.Transfer, len(want))
	wantT := make([]string, len(want))
	for i, s := range want {
		e := c20Errs[r.intn(len(c20Errs))]
		trs[i] = mqtttest.Transfer{Message: c20Msgs[s&1], Topic: c20Topics[s>>1&1], Err: e}
		wantT[i] = fmt.Sprintf("mkT %s %s %s", coqBytes(trs[i].Message), coqString(trs[i].Topic), c20Class(e))
	}
	callT := make([]string, len(calls))
	for i, s := range calls {
		callT[i] = fmt.Sprintf("mkPC %s %s %s", coqBool(s>>2&1 == 1), coqBytes(c20Msgs[s&1]), coqString(c20Topics[s>>1&1]))
	}
	tb := newC20TB()
	mock := mqtttest.NewPublishMock(tb, trs...)
	outs, fails, cl := c20RunSeq(tb, len(calls), func(i int) string {
		s := calls[i]
		// the mock gets its own copy of the message
		return "(ORet " + c20Class(mock(c20Quit(s>>2&1 == 1), append([]byte(nil), c20Msgs[s&1]...), c20Topics[s>>1&1])) + ")"
	})
	cs.add(fmt.Sprintf("PubMockCase %s %s %s %s", coqList(wantT), coqList(callT), c20Obs(outs, fails), coqList(cl)),
		map[string]any{"kind": kind, "want": want, "calls": calls}, kind, len(want)+len(calls) > 0)
}

// ---- subscribe / unsubscribe mock ----

type c20SubCall struct {
	closed  bool
	filters []string
}

func c20SubCase(cs *caseSet, r *rng, unsub bool, want [][]string, calls []c20SubCall, kind string) {
	fls := make([]mqtttest.Filter, len(want))
	wantT := make([]string, len(want))
	for i, topics := range want {
		e := c20Errs[r.intn(len(c20Errs))]
		fls[i] = mqtttest.Filter{Topics: append([]string(nil), topics...), Err: e}
		wantT[i] = fmt.Sprintf("mkF %s %s", c20Strings(topics), c20Class(e))
	}
	callT := make([]string, len(calls))
	for i, c := range calls {
		callT[i] = fmt.Sprintf("mkSC %s %s", coqBool(c.closed), c20Strings(c.filters))
	}
	tb := newC20TB()
	var mock func(quit <-chan struct{}, topicFilters ...string) error
	if unsub {
		mock = mqtttest.NewUnsubscribeMock(tb, fls...)
	} else {
		mock = mqtttest.NewSubscribeMock(tb, fls...)
	}
	outs, fails, cl := c20RunSeq(tb, len(calls), func(i int) string {
		return "(ORet " + c20Class(mock(c20Quit(calls[i].closed), append([]string(nil), calls[i].filters...)...)) + ")"
	})
	cs.add(fmt.Sprintf("SubMockCase %s %s %s %s %s", coqBool(unsub), coqList(wantT), coqList(callT), c20Obs(outs, fails), coqList(cl)),
		map[string]any{"kind": kind, "unsub": unsub, "want": want, "calls": calls}, kind, len(want)+len(calls) > 0)
}

// ---- ReadSlices mock and stub ----

func c20RsRes(m, t []byte, err error, fails []string) string {
	return fmt.Sprintf("mkRs %s %s %s %s", coqBytes(m), coqBytes(t), c20Class(err), coqList(fails))
}

func c20RsMockCase(cs *caseSet, r *rng, want []int, ncalls int) {
	trs := make([]mqtttest.Transfer, len(want))
	wantT := make([]string, len(want))
	for i, s := range want {
		e := c20Errs[r.intn(len(c20Errs))]
		trs[i] = mqtttest.Transfer{Message: c20Msgs[s&1], Topic: c20Topics[s>>1&1], Err: e}
		wantT[i] = fmt.Sprintf("mkT %s %s %s", coqBytes(trs[i].Message), coqString(trs[i].Topic), c20Class(e))
	}
	tb := newC20TB()
	mock := mqtttest.NewReadSlicesMock(tb, trs...)
	res := make([]string, ncalls)
	outs, fails, cl := c20RunSeq(tb, ncalls, func(i int) string {
		m, t, err := mock()
		res[i] = fmt.Sprintf("%s %s %s", coqBytes(m), coqBytes(t), c20Class(err))
		return "(ORet CNil)"
	})
	obs := make([]string, 0, ncalls)
	for i := range outs {
		if outs[i] == "(ORet CNil)" {
			obs = append(obs, fmt.Sprintf("mkRs %s %s", res[i], coqList(fails[i])))
		} else { // panic or Fatalf: nothing the model can produce
			obs = append(obs, "mkRs [] [] CUnknown [FOther]")
		}
	}
	cs.add(fmt.Sprintf("RsMockCase %s %s %s %s", coqList(wantT), coqNat(ncalls), coqList(obs), coqList(cl)),
		map[string]any{"kind": "rsmock", "want": want, "ncalls": ncalls}, "rsmock", len(want)+ncalls > 0)
}

// c20CopyCheck: Go side only. Mutating (and overwriting up to capacity) what an
// invocation returned shows neither in the next invocation nor in the fixture.
func c20CopyCheck(mock bool, msg []byte, topic string) bool {
	fixMsg := append([]byte(nil), msg...)
	tr := mqtttest.Transfer{Message: fixMsg, Topic: topic}
	var f func() (message, topic []byte, err error)
	if mock {
		f = mqtttest.NewReadSlicesMock(newC20TB(), tr, tr, tr)
	} else {
		f = mqtttest.NewReadSlicesStub(tr)
	}
	scribble := func(b []byte) {
		b = b[:cap(b)]
		for i := range b {
			b[i] ^= 0xff
		}
	}
	m1, t1, _ := f()
	ok := bytes.Equal(m1, msg) && string(t1) == topic
	scribble(m1)
	scribble(t1)
	m2, t2, _ := f()
	ok = ok && bytes.Equal(m2, msg) && string(t2) == topic && bytes.Equal(fixMsg, msg)
	scribble(m2)
	scribble(t2)
	m3, t3, _ := f()
	return ok && bytes.Equal(m3, msg) && string(t3) == topic && bytes.Equal(fixMsg, msg) && tr.Topic == topic
}

// ---- exchange stub ----

type c20Entry struct {
	err error
	coq string
}

var c20Entries = []c20Entry{
	{c20ErrA, "(COther 0)"},
	{mqtt.ErrClosed, "CClosed"},
	{c20WrapClosed, "CWrapClosed"},
	{mqtttest.ExchangeBlock{}, "CBlockIndef"},
	{mqtttest.ExchangeBlock{Delay: 1}, "CBlockDelay"},
	{nil, "CNil"},
	// thorough tier only:
	{c20ErrB, "(COther 1)"},
	{fmt.Errorf("c20: wrapped: %w", mqtttest.ExchangeBlock{}), "CBlockIndef"},
	{fmt.Errorf("c20: wrapped: %w", mqtttest.ExchangeBlock{Delay: 1}), "CBlockDelay"},
	{mqtt.ErrCanceled, "CCanceled"},
}

// c20WaitGoroutines waits until no more than base goroutines exist.
func c20WaitGoroutines(base int) bool {
	deadline := time.Now().Add(5 * time.Second)
	for spins := 0; runtime.NumGoroutine() > base; spins++ {
		if time.Now().After(deadline) {
			return false
		}
		if spins < 100 {
			runtime.Gosched()
		} else {
			time.Sleep(20 * time.Microsecond)
		}
	}
	return true
}

func c20ExchObserve(base int, errFix error, script []error) []string {
	var stub func(message []byte, topic string) (<-chan error, error)
	panicked := func() (p bool) {
		defer func() {
			if recover() != nil {
				p = true
			}
		}()
		stub = mqtttest.NewPublishExchangeStub(errFix, script...)
		return false
	}()
	if panicked {
		return []string{"XPanic"}
	}
	var obs []string
	for k := 0; k < 2; k++ { // the stub serves any number of invocations
		var o string
		c20Invoke(&o, func() string {
			ch, err := stub([]byte("m0"), "t0")
			if err != nil {
				return fmt.Sprintf("XErr %s %s", c20Class(err), coqBool(ch == nil))
			}
			if !c20WaitGoroutines(base) { // the goroutine behind the channel has ended
				return "XStuck"
			}
			var events []string
			for {
				select {
				case e, ok := <-ch:
					if !ok {
						return fmt.Sprintf("XChan %s true", coqList(events))
					}
					events = append(events, c20Class(e))
					continue
				default:
				}
				return fmt.Sprintf("XChan %s false", coqList(events))
			}
		})
		if o == "OPanic" || o == "OFatal" {
			o = "XPanic"
		}
		obs = append(obs, o)
	}
	return obs
}

func c20ExchCase(cs *caseSet, base int, errFix error, script []int) {
	errs := make([]error, len(script))
	terms := make([]string, len(script))
	for i, s := range script {
		errs[i], terms[i] = c20Entries[s].err, c20Entries[s].coq
	}
	obs := c20ExchObserve(base, errFix, errs)
	cs.add(fmt.Sprintf("ExchCase %s %s %s", c20Class(errFix), coqList(terms), coqList(obs)),
		map[string]any{"kind": "exchange", "errfix": c20Class(errFix), "script": terms}, "exchange", true)
}

// ---- runner ----

func runC20(tier string, seed uint64, out string) error {
	r := newRng(seed)
	thorough := tier == "thorough"
	cs := newCaseSet("C20", "C20Check", "c20case", "c20_run")

	// Exchange stub first: the end of its goroutine is detected by counting
	// goroutines, so nothing else may be running.
	base := runtime.NumGoroutine()
	nEntries, maxScript := 6, 3
	if thorough {
		nEntries, maxScript = len(c20Entries), 4
	}
	for _, errFix := range []error{nil, c20ErrA} {
		c20Lists(nEntries, 0, maxScript, func(l []int) { c20ExchCase(cs, base, errFix, l) })
	}
	for _, errFix := range []error{mqtt.ErrClosed, mqtttest.ExchangeBlock{}, mqtttest.ExchangeBlock{Delay: 1}} {
		c20ExchCase(cs, base, errFix, nil)
		c20ExchCase(cs, base, errFix, []int{0})
	}

	// Publish mock: expectation lists x invocation sequences.
	seen := map[string]bool{}
	key := func(w, c []int) string { return fmt.Sprint(w, c) }
	pubWant, pubCalls := 2, 2
	if thorough {
		pubWant, pubCalls = 3, 3
	}
	c20Lists(4, 0, pubWant, func(w []int) {
		c20Lists(8, 0, pubCalls, func(c []int) {
			seen[key(w, c)] = true
			c20PubCase(cs, r, w, c, "pubmock-exhaustive")
		})
	})
	nSample, maxLen := 1200, 3
	if thorough {
		nSample, maxLen = 5000, 4
	}
	for n := 0; n < nSample; {
		w, c := c20RandList(r, 4, r.intn(maxLen+1)), c20RandList(r, 8, r.intn(maxLen+1))
		if r.chance(3, 4) { // favour the longest
			w, c = c20RandList(r, 4, maxLen-r.intn(2)), c20RandList(r, 8, maxLen)
		}
		if seen[key(w, c)] {
			continue
		}
		seen[key(w, c)] = true
		c20PubCase(cs, r, w, c, "pubmock-sampled")
		n++
	}

	// (Un)subscribe mock, part A: one expectation, one invocation; every pair of
	// filter lists over {a, b} up to length 3, duplicates and the empty list included.
	var lists [][]string
	c20Lists(2, 0, 3, func(l []int) {
		s := make([]string, len(l))
		for i, x := range l {
			s[i] = string(rune('a' + x))
		}
		lists = append(lists, s)
	})
	n := 0
	for _, unsub := range []bool{false, true} {
		for _, w := range lists {
			for _, c := range lists {
				for _, closed := range []bool{false, true} {
					n++
					if unsub && !thorough && n%3 != 0 {
						continue
					}
					c20SubCase(cs, r, unsub, [][]string{w}, []c20SubCall{{closed, c}}, "submock-pair")
				}
			}
		}
	}
	// part B: sequencing (too few, too many, canceled, Fatalf in between).
	wantAlpha := [][]string{{"a"}, {"a", "b"}}
	callAlpha := []c20SubCall{{false, []string{"a"}}, {false, []string{"b", "a"}}, {false, nil},
		{true, []string{"a"}}, {true, []string{"b", "a"}}, {true, nil}}
	subCase := func(unsub bool, w, c []int, kind string) {
		ws := make([][]string, len(w))
		for i, x := range w {
			ws[i] = wantAlpha[x]
		}
		cc := make([]c20SubCall, len(c))
		for i, x := range c {
			cc[i] = callAlpha[x]
		}
		c20SubCase(cs, r, unsub, ws, cc, kind)
	}
	subWant, subCalls := 2, 2
	if thorough {
		subWant, subCalls = 3, 3
	}
	for _, unsub := range []bool{false, true} {
		c20Lists(len(wantAlpha), 0, subWant, func(w []int) {
			c20Lists(len(callAlpha), 0, subCalls, func(c []int) { subCase(unsub, w, c, "submock-sequence") })
		})
	}
	nSample = 200
	if thorough {
		nSample = 3000
	}
	for i := 0; i < nSample; i++ {
		nw, nc := r.intn(4), 3
		if thorough {
			// full filter alphabet in sequences
			ws := make([][]string, nw)
			for j := range ws {
				ws[j] = lists[r.intn(len(lists))]
			}
			cc := make([]c20SubCall, 1+r.intn(4))
			for j := range cc {
				cc[j] = c20SubCall{r.chance(1, 4), lists[r.intn(len(lists))]}
			}
			c20SubCase(cs, r, r.chance(1, 2), ws, cc, "submock-sampled")
			continue
		}
		subCase(r.chance(1, 2), c20RandList(r, len(wantAlpha), nw), c20RandList(r, len(callAlpha), nc), "submock-sampled")
	}

	// ReadSlices mock.
	rsWant, rsCalls := 2, 3
	if thorough {
		rsWant, rsCalls = 3, 5
	}
	c20Lists(4, 0, rsWant, func(w []int) {
		for k := 0; k <= rsCalls; k++ {
			c20RsMockCase(cs, r, w, k)
		}
	})

	// ReadSlices stub: fixed value, any number of invocations.
	for _, m := range [][]byte{nil, {}, []byte("m0"), []byte("m1"), bytes.Repeat([]byte{0xC2, 0x00, 0xFF}, 20)} {
		for _, t := range []string{"", "t0", "t1"} {
			e := c20Errs[r.intn(len(c20Errs))]
			stub := mqtttest.NewReadSlicesStub(mqtttest.Transfer{Message: m, Topic: t, Err: e})
			var obs []string
			for k := 0; k < 3; k++ {
				gm, gt, gerr := stub()
				obs = append(obs, c20RsRes(gm, gt, gerr, nil))
			}
			cs.add(fmt.Sprintf("RsStubCase (mkT %s %s %s) %s", coqBytes(m), coqString(t), c20Class(e), coqList(obs)),
				map[string]any{"kind": "rsstub", "message_len": len(m), "topic": t}, "rsstub", len(m)+len(t) > 0)
		}
	}

	// Publish, Subscribe and Unsubscribe stubs. Quit: open, nil (never ready), closed.
	quits := []struct {
		ch     <-chan struct{}
		closed bool
	}{{c20Quit(false), false}, {nil, false}, {c20Quit(true), true}}
	for _, fix := range c20Errs {
		for _, q := range quits {
			var o string
			c20Invoke(&o, func() string {
				return "(ORet " + c20Class(mqtttest.NewPublishStub(fix)(q.ch, []byte("m0"), "t0")) + ")"
			})
			cs.add(fmt.Sprintf("PubStubCase %s %s %s", c20Class(fix), coqBool(q.closed), o),
				map[string]any{"kind": "pubstub", "fix": c20Class(fix), "quit_closed": q.closed, "quit_nil": q.ch == nil}, "pubstub", true)
			for _, unsub := range []bool{false, true} {
				for _, fs := range [][]string{nil, {"a"}, {"a", "b"}, {"a", "a"}} {
					stub := mqtttest.NewSubscribeStub(fix)
					if unsub {
						stub = mqtttest.NewUnsubscribeStub(fix)
					}
					done := make(chan struct{})
					go func() { // a Fatalf-like exit must not take the harness down
						defer close(done)
						c20Invoke(&o, func() string { return "(ORet " + c20Class(stub(q.ch, fs...)) + ")" })
					}()
					<-done
					cs.add(fmt.Sprintf("SubStubCase %s %s %s %s %s", coqBool(unsub), c20Class(fix), coqBool(q.closed), c20Strings(fs), o),
						map[string]any{"kind": "substub", "unsub": unsub, "fix": c20Class(fix), "quit_closed": q.closed, "filters": fs}, "substub", true)
				}
			}
		}
	}

	// Private copies (Go side only).
	for _, mock := range []bool{false, true} {
		for _, m := range [][]byte{{}, []byte("m"), []byte("message 0123456789")} {
			private := c20CopyCheck(mock, m, "topic/"+string(m))
			cs.add(fmt.Sprintf("CopyCase %s %s", coqBool(mock), coqBool(private)),
				map[string]any{"kind": "copies", "mock": mock, "message_len": len(m)}, "copies", true)
		}
	}
	return cs.write(out, 250)
}
