package main

// Simulated environment of one client history: connections, dialer, store.
// Every call the client makes into it is appended to one event log together
// with the answer it got. The answers come from callbacks (the scenario).

import (
	"context"
	"errors"
	"fmt"
	"github.com/pascaldekloe/mqtt"
	"io"
	"net"
	"os"
	"path/filepath"
	"sort"
	"strings"
	"sync"
	"time"
)

// answer kinds for conn.Read
const (
	rData = iota
	rTimeout
	rEOF
	rClosed
	rHard
)

// answer kinds for conn.Write
const (
	wOk = iota
	wTimeout
	wClosed
	wHard
)

type simTimeout struct{}

func (simTimeout) Error() string   { return "sim: i/o timeout" }
func (simTimeout) Timeout() bool   { return true }
func (simTimeout) Temporary() bool { return true }
func (simTimeout) Is(t error) bool { return t == os.ErrDeadlineExceeded }

var errSimTimeout net.Error = simTimeout{}
var errSimHard = errors.New("sim: connection broke")
var errSimStore = errors.New("sim: persistence failure")
var errSimDial = errors.New("sim: dial failure")

// event is one call into the environment with its answer.
type event struct {
	Kind  string // list load save delete dial write read close
	Conn  int
	Key   uint
	Bytes []byte // argument (save value, write argument)
	Armed bool   // read: deadline set
	Want  int    // read: slice size
	// answer
	Ans   int    // read/write answer kind; store: 0 ok 1 fail; dial: 0 ok 1 fail
	N     int    // write: bytes accepted
	Data  []byte // read data / load value
	Found bool   // load: value present
	Keys  []uint // list
}

type evlog struct {
	mu sync.Mutex
	ev []event
}

func (l *evlog) add(e event) {
	l.mu.Lock()
	l.ev = append(l.ev, e)
	l.mu.Unlock()
}
func (l *evlog) take() []event {
	l.mu.Lock()
	e := l.ev
	l.ev = nil
	l.mu.Unlock()
	return e
}

type readAns struct {
	kind int
	data []byte
}
type writeAns struct {
	kind int
	n    int
}

// simConn is a scripted net.Conn.
type simConn struct {
	id         int
	log        *evlog
	onRead     func(c *simConn, armed bool, want int) readAns
	onWrite    func(c *simConn, p []byte) writeAns
	mu         sync.Mutex
	armedR     bool
	armedW     bool
	closed     bool
	peerGone   bool                 // the peer closed its end (net.Pipe semantics): writes fail with io.ErrClosedPipe, reads see EOF, our end stays open
	expiredR   bool                 // a read deadline expired and has not been set again
	deadlineR  time.Time            // the read deadline as set (zero: none)
	pend       []byte               // rest of a chunk that did not fit the slice
	written    []byte               // every byte accepted
	closedCh   chan struct{}        // closed together with the connection (optional)
	closeDelay func() time.Duration // Close takes this long before it takes effect (optional)
	closeErr   error                // what Close returns after it closed the connection (optional)
	nclose     int                  // Close invocations
}

func (c *simConn) Read(p []byte) (int, error) {
	c.mu.Lock()
	defer c.mu.Unlock()
	e := event{Kind: "read", Conn: c.id, Armed: c.armedR, Want: len(p)}
	if c.closed {
		e.Ans = rClosed
		c.log.add(e)
		return 0, net.ErrClosed
	}
	var a readAns
	if c.expiredR && c.armedR {
		// the deadline that expired is still in the past: every read fails at once until
		// the deadline is set again (net.Conn semantics)
		a = readAns{kind: rTimeout}
	} else if c.peerGone {
		a = readAns{kind: rEOF}
	} else if len(c.pend) != 0 {
		a = readAns{kind: rData, data: c.pend}
		c.pend = nil
	} else {
		a = c.onRead(c, c.armedR, len(p))
	}
	e.Ans = a.kind
	switch a.kind {
	case rData:
		if len(a.data) == 0 {
			panic("sim: empty read chunk")
		}
		n := copy(p, a.data)
		if n < len(a.data) {
			c.pend = append([]byte(nil), a.data[n:]...)
		}
		e.Data = append([]byte(nil), p[:n]...)
		c.log.add(e)
		return n, nil
	case rTimeout:
		if !c.armedR {
			panic("sim: deadline expiry without a deadline")
		}
		c.expiredR = true
		c.log.add(e)
		return 0, errSimTimeout
	case rEOF:
		c.log.add(e)
		return 0, io.EOF
	case rClosed:
		c.log.add(e)
		return 0, net.ErrClosed
	default:
		c.log.add(e)
		return 0, errSimHard
	}
}

func (c *simConn) Write(p []byte) (int, error) {
	c.mu.Lock()
	defer c.mu.Unlock()
	e := event{Kind: "write", Conn: c.id, Bytes: append([]byte(nil), p...)}
	if len(p) == 0 {
		e.Ans = wOk
		c.log.add(e)
		return 0, nil
	}
	if c.closed {
		e.Ans = wClosed
		c.log.add(e)
		return 0, net.ErrClosed
	}
	if c.peerGone {
		e.Ans = wClosed
		c.log.add(e)
		return 0, io.ErrClosedPipe
	}
	a := c.onWrite(c, p)
	e.Ans = a.kind
	if a.kind == wOk {
		a.n = len(p)
	}
	if a.n > len(p) {
		a.n = len(p)
	}
	if a.kind == wTimeout && !c.armedW {
		panic("sim: write deadline expiry without a deadline")
	}
	e.N = a.n
	if a.kind == wClosed && !c.peerGone {
		c.markClosed() // somebody closed the connection
	}
	c.written = append(c.written, p[:a.n]...)
	c.log.add(e)
	switch a.kind {
	case wOk:
		return a.n, nil
	case wTimeout:
		return a.n, errSimTimeout
	case wClosed:
		if c.peerGone {
			return a.n, io.ErrClosedPipe
		}
		return a.n, net.ErrClosed
	default:
		return a.n, errSimHard
	}
}

func (c *simConn) Close() error {
	if c.closeDelay != nil {
		if d := c.closeDelay(); d > 0 {
			time.Sleep(d)
		}
	}
	c.mu.Lock()
	defer c.mu.Unlock()
	c.markClosed()
	c.nclose++
	c.log.add(event{Kind: "close", Conn: c.id})
	return c.closeErr
}

func (c *simConn) markClosed() {
	if !c.closed && c.closedCh != nil {
		close(c.closedCh)
	}
	c.closed = true
}

type simAddr struct{}

func (simAddr) Network() string { return "sim" }
func (simAddr) String() string  { return "sim" }

func (c *simConn) LocalAddr() net.Addr  { return simAddr{} }
func (c *simConn) RemoteAddr() net.Addr { return simAddr{} }
func (c *simConn) SetDeadline(t time.Time) error {
	c.mu.Lock()
	c.armedR, c.armedW = !t.IsZero(), !t.IsZero()
	c.expiredR = false
	c.deadlineR = t
	c.mu.Unlock()
	return nil
}
func (c *simConn) SetReadDeadline(t time.Time) error {
	c.mu.Lock()
	c.armedR = !t.IsZero()
	c.expiredR = false
	c.deadlineR = t
	c.mu.Unlock()
	return nil
}
func (c *simConn) SetWriteDeadline(t time.Time) error {
	c.mu.Lock()
	c.armedW = !t.IsZero()
	c.mu.Unlock()
	return nil
}

// simDialer hands out simConns per scenario.
type simDialer struct {
	log    *evlog
	nconn  int
	conns  []*simConn
	onDial func(id int) (*simConn, bool) // false: dial error
}

func (d *simDialer) dial(ctx context.Context) (net.Conn, error) {
	c, ok := d.onDial(d.nconn)
	if !ok {
		d.log.add(event{Kind: "dial", Ans: 1})
		return nil, errSimDial
	}
	c.id = d.nconn
	c.log = d.log
	d.nconn++
	d.conns = append(d.conns, c)
	d.log.add(event{Kind: "dial", Ans: 0, Conn: c.id})
	return c, nil
}

// simStore is a Persistence with an operation log and scripted faults.
type simStore struct {
	log    *evlog
	mu     sync.Mutex
	m      map[uint][]byte
	onOp   func(kind string, key uint) bool // true: fail this operation
	before func(kind string, key uint)      // called before the operation takes the store's lock (gates)
	listFn func(keys []uint) []uint         // order of List results (nil: ascending)
	fs     mqtt.Persistence                 // when set: the real FileSystem store of the library does the work
	fsDir  string
}

// useFileSystem backs the store with mqtt.FileSystem(dir): every operation goes to the real
// implementation and its answers are what the client gets and what the log records; the map
// stays as the harness's view for snapshots and tampering (syncFS writes it back to the files).
func (s *simStore) useFileSystem(dir string) {
	s.fsDir = dir
	s.fs = mqtt.FileSystem(dir)
}

func (s *simStore) syncFS() {
	if s.fs == nil {
		return
	}
	s.mu.Lock()
	defer s.mu.Unlock()
	ents, _ := os.ReadDir(s.fsDir)
	for _, e := range ents {
		os.Remove(filepath.Join(s.fsDir, e.Name()))
	}
	for k, v := range s.m {
		os.WriteFile(filepath.Join(s.fsDir, fmt.Sprintf("%05x", k)), v, 0o644)
	}
}

func newSimStore(log *evlog) *simStore {
	return &simStore{log: log, m: map[uint][]byte{}}
}

func (s *simStore) fail(kind string, key uint) bool {
	return s.onOp != nil && s.onOp(kind, key)
}

func (s *simStore) Load(key uint) ([]byte, error) {
	s.mu.Lock()
	defer s.mu.Unlock()
	if s.fail("load", key) {
		s.log.add(event{Kind: "load", Key: key, Ans: 1})
		return nil, errSimStore
	}
	v, ok := s.m[key]
	if s.fs != nil {
		fv, err := s.fs.Load(key)
		if err != nil {
			s.log.add(event{Kind: "load", Key: key, Ans: 1})
			return nil, err
		}
		v, ok = fv, fv != nil
	}
	s.log.add(event{Kind: "load", Key: key, Found: ok, Data: append([]byte(nil), v...)})
	if !ok {
		return nil, nil
	}
	return append([]byte{}, v...), nil
}

func (s *simStore) Save(key uint, value net.Buffers) error {
	if s.before != nil {
		s.before("save", key)
	}
	s.mu.Lock()
	defer s.mu.Unlock()
	var all []byte
	for _, b := range value {
		all = append(all, b...)
	}
	if all == nil {
		all = []byte{}
	}
	if s.fail("save", key) {
		s.log.add(event{Kind: "save", Key: key, Bytes: all, Ans: 1})
		return errSimStore
	}
	if s.fs != nil {
		if err := s.fs.Save(key, value); err != nil {
			s.log.add(event{Kind: "save", Key: key, Bytes: all, Ans: 1})
			return err
		}
	}
	s.m[key] = all
	s.log.add(event{Kind: "save", Key: key, Bytes: all})
	return nil
}

func (s *simStore) Delete(key uint) error {
	s.mu.Lock()
	defer s.mu.Unlock()
	if s.fail("delete", key) {
		s.log.add(event{Kind: "delete", Key: key, Ans: 1})
		return errSimStore
	}
	if s.fs != nil {
		if err := s.fs.Delete(key); err != nil {
			s.log.add(event{Kind: "delete", Key: key, Ans: 1})
			return err
		}
	}
	delete(s.m, key)
	s.log.add(event{Kind: "delete", Key: key})
	return nil
}

func (s *simStore) List() ([]uint, error) {
	s.mu.Lock()
	defer s.mu.Unlock()
	if s.fail("list", 0) {
		s.log.add(event{Kind: "list", Ans: 1})
		return nil, errSimStore
	}
	keys := make([]uint, 0, len(s.m))
	for k := range s.m {
		keys = append(keys, k)
	}
	sort.Slice(keys, func(i, j int) bool { return keys[i] < keys[j] })
	if s.listFn != nil {
		keys = s.listFn(keys)
	}
	if s.fs != nil {
		fk, err := s.fs.List()
		if err != nil {
			s.log.add(event{Kind: "list", Ans: 1})
			return nil, err
		}
		// directory order is arbitrary; the model lists in ascending order (that the result of
		// AdoptSession does not depend on the order is a theorem, adopt_order_independent)
		sort.Slice(fk, func(i, j int) bool { return fk[i] < fk[j] })
		if s.listFn != nil {
			fk = s.listFn(fk)
		}
		keys = fk
	}
	s.log.add(event{Kind: "list", Keys: append([]uint(nil), keys...)})
	return keys, nil
}

func (s *simStore) snapshot() map[uint][]byte {
	s.mu.Lock()
	defer s.mu.Unlock()
	m := make(map[uint][]byte, len(s.m))
	for k, v := range s.m {
		m[k] = append([]byte(nil), v...)
	}
	return m
}

// Coq rendering of events: Ev <request> <answer>
func coqRAns(kind int, data []byte) string {
	switch kind {
	case rData:
		return "(RData " + coqBytes(data) + ")"
	case rTimeout:
		return "RTimeout"
	case rEOF:
		return "REOF"
	case rClosed:
		return "RClosed"
	default:
		return "RHard"
	}
}

func coqWRes(kind int) string {
	return [...]string{"WOk", "WTimeout", "WClosed", "WHard"}[kind]
}

func coqEvent(e event) string {
	switch e.Kind {
	case "list":
		if e.Ans != 0 {
			return "Ev QList AFail"
		}
		ks := make([]string, len(e.Keys))
		for i, k := range e.Keys {
			ks[i] = fmt.Sprint(k)
		}
		return "Ev QList (AKeys " + coqList(ks) + ")"
	case "load":
		if e.Ans != 0 {
			return fmt.Sprintf("Ev (QLoad %d) AFail", e.Key)
		}
		if !e.Found {
			return fmt.Sprintf("Ev (QLoad %d) (AVal None)", e.Key)
		}
		return fmt.Sprintf("Ev (QLoad %d) (AVal (Some %s))", e.Key, coqBytes(e.Data))
	case "save":
		a := "ADone"
		if e.Ans != 0 {
			a = "AFail"
		}
		return fmt.Sprintf("Ev (QSave %d %s) %s", e.Key, coqBytes(e.Bytes), a)
	case "delete":
		a := "ADone"
		if e.Ans != 0 {
			a = "AFail"
		}
		return fmt.Sprintf("Ev (QDelete %d) %s", e.Key, a)
	case "dial":
		return fmt.Sprintf("Ev QDial (ADial %s)", coqBool(e.Ans == 0))
	case "write":
		return fmt.Sprintf("Ev (QWrite %d %s) (AWr %d %s)", e.Conn, coqBytes(e.Bytes), e.N, coqWRes(e.Ans))
	case "read":
		return fmt.Sprintf("Ev (QRead %d %s %d) (ARd %s)", e.Conn, coqBool(e.Armed), e.Want, coqRAns(e.Ans, e.Data))
	case "close":
		return fmt.Sprintf("Ev (QClose %d) ANone", e.Conn)
	}
	panic("unknown event " + e.Kind)
}

func coqEvents(evs []event) string {
	items := make([]string, len(evs))
	for i, e := range evs {
		items[i] = coqEvent(e)
	}
	return "[" + strings.Join(items, "; ") + "]"
}
