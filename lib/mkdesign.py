#!/usr/bin/env python3
"""Assemble DESIGN.md = lib/design_part1.md (with the per-property table generated
from lib/props.py) + lib/design_part2.md (the round-0 design, unchanged)."""
import os, re, sys
HERE = os.path.dirname(os.path.abspath(__file__))
sys.path.insert(0, HERE)
import props

ROOT = os.path.dirname(HERE)
titles = {}
import json
for line in open(os.path.join(ROOT, "properties.jsonl")):
    p = json.loads(line)
    titles[p["id"]] = p.get("title") or p.get("name") or ""

out = []
for pid in sorted(props.PROPS):
    c = props.PROPS[pid]
    src = open(os.path.join(ROOT, "coq", "props", pid + ".v")).read()
    thms = re.findall(r"^\s*(?:Theorem|Corollary)\s+([A-Za-z0-9_']+)", src, re.M)
    out.append("### %s%s" % (pid, (" — " + titles[pid]) if titles.get(pid) else ""))
    out.append("")
    out.append("* **Theorems** (`coq/props/%s.v`, %d): %s." % (pid, len(thms), ", ".join("`%s`" % t for t in thms)))
    out.append("* **What they say.** " + c["level_text"].strip())
    if c.get("partial"):
        out.append("* **Partial / judged on histories only.** " + "; ".join(x.strip().rstrip(".") for x in c["partial"]) + ".")
    out.append("* **Tie.** runners " + ", ".join("`%s`%s" % (r["name"], " (synctest)" if r.get("synctest") else "") for r in c.get("runners", [{"name": pid}]))
               + "; checker modules " + ", ".join("`%s`" % m for m in c.get("modules", []))
               + ((" ; constants tie " + ", ".join("`%s`" % m for m in c["tie"])) if c.get("tie") else "") + ". " + c["rule"].strip())
    if c.get("assumptions"):
        out.append("* **Assumptions.** " + "; ".join(a.strip().rstrip(".") for a in c["assumptions"]) + ".")
    out.append("* **Trusted / level note.** " + c["level_note"].strip())
    out.append("")
part1 = open(os.path.join(HERE, "design_part1.md")).read()
part1 = re.sub(r"<!-- ASBUILT-BEGIN -->.*?<!-- ASBUILT-END -->", lambda m: "\n".join(out), part1, flags=re.S)
part2 = open(os.path.join(HERE, "design_part2.md")).read()
open(os.path.join(ROOT, "DESIGN.md"), "w").write(part1 + part2)
print("DESIGN.md: %d lines" % (part1 + part2).count("\n"))
