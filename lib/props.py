"""Per-property configuration of the check driver."""

TRUSTED_BASE = [
    "Coq 8.16.1 kernel (coqc; vm_compute used for reflection and to run the model; native_compute not used)",
    "no axioms declared; Print Assumptions output recorded per run",
    "hand-written Gallina model (coq/theories) of the Go code; tied to /repo by differential execution on this run's cases",
    "Go harness (/verif/harness) built from /repo with -tags verif: simulated net.Conn/Dialer/Persistence, event projection",
    "constant extractor gen/gen.py (regex over /repo/*.go) -> coq/gen/GenConsts.v",
    "Go toolchain go1.26.8 (GOTOOLCHAIN=local) compiling /repo",
]

PROPS = {
    "C15": {
        "modules": ["C15Check"],
        "theorems": ["c15_decode_encode", "c15_layout", "c15_single_byte_damage_detected", "c15_short_rejected",
                     "c15_checker_sound_enc"],
        "partial": [],
        "rule": "records: packet sizes 0..200 (thorough: ..70000) x sequence numbers {0,1,255,256,2^32-1,2^32,2^63,2^64-1,random}; "
                "per record: encodeValue output, decode(encode), sampled single-byte damage, every truncation length "
                "(sampled in the middle of long records), 60 arbitrary strings; Go-side exhaustive sweep position x 255 values for "
                "packets <= 24 bytes (survivors are handed to the Coq checker). Non-trivial = non-empty packet or damaged/truncated value; "
                "distinct = distinct Coq case term.",
        "assumptions": ["hash/fnv, encoding/binary are modelled (FNV-1a-32, LE64, BE32) and compared with the installed Go on every case",
                        "multi-byte damage is measured (see extra_measurements), not claimed"],
    },
}

PROPS["C20"] = {
    "modules": ["C20Check"],
    "theorems": ["publish_mock_reports_iff", "c20_publish_mock_silent_on_match", "c20_cleanup_after_surplus",
                 "subscribe_mock_reports_iff", "c20_subscribe_mock_silent_on_match", "c20_subscribe_compare",
                 "c20_readslices_mock_reports_iff", "c20_readslices_stub_stateless", "quit_closed_cancels",
                 "exchange_script", "c20_exchange_errfix", "c20_exchange_never_blocks", "no_panic",
                 "c20_checker_sound_pub", "c20_checker_sound_sub", "c20_checker_sound_rs",
                 "c20_checker_sound_exch", "c20_checker_sound_stubs"],
    "partial": [],
    "rule": "publish mock: exhaustive expectation lists (4 symbols) x invocation sequences (8 symbols = msg x topic x quit) "
            "up to length 2x2 + 1200 seeded samples from the <=3x<=3 space (thorough: exhaustive <=3x<=3, +5000 samples up to length 4); "
            "(un)subscribe mock: every pair of filter lists over {a,b} len<=3 incl. duplicates and empty x quit, sequences over "
            "2 expectation x 6 call symbols up to 2x2 + 200 samples of length 3 (thorough: <=3x<=3); exchange stub: every script "
            "len<=3 over {plain, ErrClosed, wrapped ErrClosed, Block{0}, Block{1ns}, nil} x errFix {nil, non-nil}, including the "
            "ones the constructor rejects; ReadSlices mock/stub, Publish/Subscribe/Unsubscribe stubs x quit {open, nil, closed}; "
            "6 Go-side private-copy checks. Each call sequence runs in one goroutine; Fatalf = Goexit ends it; Cleanup runs afterwards. "
            "Non-trivial = at least one expectation or invocation; distinct = distinct Coq term.",
    "assumptions": ["error values are compared by class only (nil, Canceled, ==ErrClosed, wraps ErrClosed, ExchangeBlock 0/>0, own plain errors)",
                    "the kind of a recorded t.Errorf is derived from argument count/types",
                    "delays are abstracted; the end of the exchange goroutine is detected with runtime.NumGoroutine",
                    "cleanup theorems assume len(want), len(calls) < 2^64 (after a surplus call the unsigned subtraction wraps: c20_cleanup_after_surplus)",
                    "'private copies' is checked on the Go side only (CopyCase); the model states statelessness"],
    "level_text": "Coq theorems by induction over ALL expectation lists and ALL invocation sequences for the mocks (report iff deviation; silent on match; quit => ErrCanceled; exchange script semantics; no panic), on a model of mqtttest tied to the real package by exhaustive small-alphabet differential runs with a recording testing.TB.",
    "level_note": "Trusted: Coq kernel; the model of mqtttest (validated on every run); the recording TB in the harness. Aliasing (private copies) has no Gallina counterpart and is checked on the Go side only.",
    "technique": "Coq proof by induction over call sequences + exhaustive model/implementation correspondence",
}

PROPS["C19"] = {
    "modules": ["C19Check", "C19CheckProofs"],
    "theorems": ["c19_save_atomic", "c19_failed_save_keeps_old", "c19_flush_before_visible", "c19_visible_only_when_flushed",
                 "c19_delete_atomic", "c19_list_subset_loadable", "c19_listed_iff_loadable", "c19_frame", "c19_interleavings_commute",
                 "c19_concurrent_atomic", "c19_names", "c19_saved_is_listed", "c19_checker_sound_view", "c19_checker_sound_save_kill",
                 "c19_big_closed_form", "c19_disciplined_atomic", "c19_disciplined_no_rename_keeps_old", "c19_chunked_save_atomic",
                 "c19_model_is_disciplined", "c19_tie_class_atomic", "c19_tie_class_failed_keeps_old"],
    "partial": [],
    "rule": "helper child (plain harness binary, real FileSystem code) under strace; scenarios: first write/overwrite x buffer splits "
            "(12 B .. 4 KiB literal) with other keys and spool leftovers in the directory; per scenario SIGKILL at the entry of every store "
            "syscall and after the last; RLIMIT_FSIZE stops inside the data write; Save sequences under injected faults (openat/each write/"
            "fsync/close/renameat error, also with failing cleanup unlink); Delete present/absent/failing; List on arbitrary names; large values "
            "by reference (sha256 compare in Go); goroutine-owner histories from concurrent runs. Non-trivial = every case; distinct = distinct term. "
            "Agreement of a Save sequence: recorded calls = model's calls, result and directory, OR the recorded calls pass the scanner "
            "'disciplined' (c19_tie_class_atomic), nil was returned exactly when the rename happened and the model directory after the recorded calls is the one found; "
            "of a kill case: the fresh process' view = the model's calls cut at the stop, OR = the recorded (disciplined) calls of the same Save cut there.",
    "assumptions": ["syscall-level model; the kernel is observed through strace/ptrace, not modelled",
                    "class-level agreement rebuilds the contents of recorded data writes from the record by offset (the descriptor writes sequentially); the directory found afterwards is compared, which checks it",
                    "process stop = no further syscall; power loss / durability of the rename is outside",
                    "store directories only (names %05x and %05x.spool); a foreign upper-case name such as 0ABCD is listed but not loadable (Example c19_foreign_name_listed_not_loadable)",
                    "same-key concurrent Saves share one spool name and are not claimed",
                    "values above ~6 KiB are compared in Go (sha256), not in Coq"],
    "trusted_extra": ["strace 6.1 -e inject (ptrace), RLIMIT_FSIZE semantics of the kernel"],
    "level_text": "Coq theorems over ALL directories of store names, keys, values and ALL stop points (induction over syscall prefixes incl. cuts inside a data write): Save/Delete atomic per key, flush before visible, failed Save keeps old, List subset of loadable, frame and commuting interleavings for distinct keys; the same atomicity for EVERY system-call trace the executable scanner 'disciplined' accepts (any split of the record into writes, anything on other names), of which the executable model of Save is a member; the syscall-level model is tied to the real FileSystem code by strace sequence comparison (equal to the model's calls, or else inside the proved class and explaining the directory found), SIGKILL sweeps at every syscall and RLIMIT_FSIZE cuts.",
    "level_note": "Trusted: Coq kernel; the syscall vocabulary and os/* behaviour as observed with strace on this kernel; ptrace injection. Durability against power loss is not part of the property.",
    "technique": "Coq proof by induction over syscall prefixes + strace-level model/implementation correspondence",
    "harness_timeout": 3000,
}
PROPS["C15"].update({
    "level_text": "Coq theorems over all packets/sequence numbers/positions/byte values for the record codec model (round trip, layout, single-byte damage detection by FNV-1a algebra, short values refused); the model is tied to encodeValue/decodeValue of /repo by differential execution on every run.",
    "level_note": "Trusted: Coq kernel, the hand-written model of hash/fnv + encoding/binary (validated against the installed Go on each case), the Go harness. 'Never transmitted/adopted/used as client identifier' is the subject of the session model (rugged_load in Session.v, C16).",
    "technique": "Coq proof (FNV-1a step injectivity mod 2^32) + model/implementation correspondence",
})

SEQ_TB = ["L2 session model Session.v (sequential view; API-level atomic steps) tied by recorded histories: every call into net.Conn/Dialer/Persistence with its answer, returns, completions, exchange events, Online signal",
          "scripted broker and fault injection in the harness only generate answers; synctest bubbles (virtual time, exact quiescence)"]

PROPS["C08"] = {
    "modules": ["C08Check"],
    "runners": [{"name": "C08", "synctest": True}],
    "theorems": ["c08_write_to", "c08_write_buffers_to", "c08_consume", "c08_write_buffers_to_pinned_refuted"],
    "partial": ["connection-log invariant of the session model (every reachable connection log = whole packets + one tail) is checked on traces (c08_ok), not yet a theorem",
                "mutual exclusion of concurrent writers (write token) is argued in DESIGN 6/C08, L3 not built yet"],
    "rule": "scripted: every split pattern (first/second buffer x accepted count x {timeout, hard, closed}, two-level timeouts) x {Publish, Publish with empty payload, "
            "PublishAtLeastOnce, PublishExactlyOnceRetained, Subscribe, Ping} after a quiet connect, followed by two ReadSlices; random: histories with write fault rates 10-35 %. "
            "Non-trivial = at least one failing/short environment answer; distinct = distinct Coq term.",
    "assumptions": ["net.Buffers.WriteTo on a non-TCP writer (one Write per buffer + consume) is modelled from go1.26 net/net.go and exercised through simConn; TCP writev takes the same consume path (by reading)",
                    "sequential histories: concurrent submitters are serialised by the write semaphore (not modelled here)"],
    "trusted_extra": SEQ_TB,
    "level_text": "Coq theorems for ALL outcome scripts of the two write loops (prefix property; success only if complete; consume leaves the exact suffix) + refutation of the pinned loop (F1); the loops run inside the session model, which is compared with the real client on exhaustive split patterns and on random histories, and the executable checker c08_ok judges every connection's byte stream with the independent parser.",
    "level_note": "Trusted: Coq kernel; models of net.Buffers/conn.Write; harness. Partial: the whole-packets invariant over all session histories is judged on traces (see coverage.partial); the write-token exclusion is a theorem about the L3 monitor (c08_write_token_exclusive), tied by trace inclusion.",
    "technique": "Coq proof by induction over write-outcome scripts + model/implementation correspondence on exhaustive splits",
}


def hist_prop(pid, theorems, partial, rule_extra, level_text, level_note, technique, assumptions=()):
    PROPS[pid] = {
        "modules": ["HistChecks"],
        "runners": [{"name": pid, "synctest": True}],
        "theorems": theorems,
        "partial": partial,
        "rule": "corpus first: scripted scenarios reproducing the witnesses of the repaired findings (F2 F3 F4 F8 F9 F11 F13 F16, big message at Close), scripted Persistence faults at chosen operations (Save at a persisted publish with limit 1 and while online, PUBREL Save at the PUBREC, Delete at PUBACK/PUBCOMP), acknowledgements carrying exactly the identifier next in line in every queue configuration, a restart at the identifier wrap (PUBREL 0xffff + PUBLISH 0xc000 in a crafted store"
                + (", 14 damage scenarios" if pid == "C16" else "") + "), then seeded random sequential histories (10-50 API calls each: ReadSlices, "
                "Publish, persisted publishes on both levels, Subscribe/Unsubscribe/Ping in goroutines, quit, Close/Disconnect, ReadBackoff, process stop + "
                "AdoptSession) against a scripted broker that acknowledges, withholds, duplicates and fragments, with injected dial/read/write/Persistence "
                "faults; half of the histories end with a GOOD SUFFIX (marker call, then a benign environment and six more ReadSlices calls) after which every accepted transfer must have completed, every returned message been acknowledged and every waiting request returned; " + rule_extra + " Non-trivial = at least one failing or short environment answer, or a restart; distinct = distinct Coq term.",
        "assumptions": ["sequential histories: one API call at a time; requests that wait for a response are parked goroutines observed at quiescence (synctest)",
                        "the invariant theorems hold while the 64-bit storage counter has not overflowed (2^64 Saves)",
                        "concurrent publishers are serialised per level by the sequence semaphore (L3 argument, DESIGN 6/C05), not modelled in L2"] + list(assumptions),
        "trusted_extra": SEQ_TB,
        "level_text": level_text, "level_note": level_note, "technique": technique,
    }


REFINE = ("Every API call of the session model is proved to be a finite sequence of abstract bookkeeping transitions (exec_refines, 1085 lines), "
          "and the invariant OInv' (counters, windows, exactly one genuine record per unacknowledged sequence number at the right stage, nothing else in the "
          "publish key spaces, storage numbers in acceptance order) is proved for every reachable state of client + Persistence under every environment script (reachable_inv). ")

hist_prop("C01",
    ["c01_every_call_refines", "c01_record_kept", "c01_record_leaves_only_by_puback", "c01_record_leaves_only_by_pubcomp", "c01_no_fault_stops_it"],
    ["liveness exists as bounded progress in the closed world AloWorld.v (at-least-once sender + conforming broker + one FIFO connection, faults: Break, failed Save/Delete, failed or partial resend, Close, Restart): from every reachable state one Restart plus exactly amu fault-free steps reach the state where every accepted message was forwarded at least once and every exchange is closed (c01_restart_good_run_exists); no fairness theorem; on the real client the clause is judged on histories that end with a benign environment (settled_exchanges) and on the scripted fault scenarios",
     "AloWorld's resend list has the shape proved in ResendOrder.resend_writes_level1 but is linked to it by citation, not formally; the exactly-once level is BrokerWorld.v (C03)",
     "'written in full' / 'resent on each connection' are judged on histories (c01_ok, c05_ok, hist_agree), the theorems cover the Persistence and counters"],
    "C01 generator: window sizes 1-16, fault rate up to 12 %, Persistence faults up to 8 %, acknowledgements withheld up to 40 %.",
    REFINE + "Corollaries: a record stays until the in-order final acknowledgement is applied and leaves only in that step together with the queue head. "
    "Closed loop (AloWorld.v): every acknowledged message was forwarded by the broker (c01_acked_forwarded), the lower end of the window moves only by the in-order PUBACK of a forwarded message, the exchange queue is popped only then (c01_exchange_closes_only_by_ack), an in-flight identifier stands for exactly one message of the window across the 14-bit wrap, and the client never meets an out-of-order PUBACK on a live connection with a conforming broker (c01_alo_never_rejects). "
    "The model is tied to the real client by recorded histories; c01_ok judges the implementation's trace alone (delete only after the ack was read, in order; exchange closes only with a delete).",
    "Trusted: Coq kernel; the Session model (validated on every run); harness. Safety only; liveness is sampled.",
    "Coq refinement + invariant proof over all histories/fault scripts + model/implementation correspondence")

hist_prop("C03",
    ["c03_no_publish_after_pubrec", "c03_pubrel_until_pubcomp", "c03_single_writer", "c03_id_not_reused"],
    ["the closed loop (BrokerWorld.v) models ONE exactly-once level, a conforming broker (MQTT 3.1.1 figure 4.3 method B, session state kept across connections) and one FIFO connection at a time; its resend list was matched with Session.resend by reading, and 'the client applies PUBREC/PUBCOMP only when it reads them in order from the current connection' is tied to the session model through ostep_slim/adopts_slim only",
     "boundary found while proving: a process restarted by AdoptSession with Config.CleanSession = true asks the broker to drop its session; the broker then forwards a retransmitted PUBLISH again (BrokerWorld.clean_session_restart_duplicates). The configuration itself requests the new session (MQTT-3.1.2-6) and AdoptSession's own comment presupposes CleanSession 0, so it is recorded here as a boundary of the theorem, not as a finding",
     "exactly once under a good suffix is a bounded-progress statement about runs without Break/Restart (measure mu), not a fairness theorem"],
    "C03 generator: exactly-once publishes only, acknowledgements lost at every stage of the four-packet handshake, restarts.",
    REFINE + "Corollaries: once PUBREC n is recorded the record of n is the PUBREL and stays that record until PUBCOMP n; the only writer of the key is the PUBREC step; identifiers in the window are distinct. "
    "Closed loop (BrokerWorld.v): in every reachable state of client + conforming broker + connection, under any interleaving of accepts, broker steps, connection breaks, reconnects (with the resend list) and process restarts (counter rebase as adopt_exact states), the broker has forwarded every accepted message at most once (c03_at_most_once), only accepted ones, every one whose PUBREC the client recorded; an identifier the broker holds stands for exactly one message of the window; the client never meets an out-of-order acknowledgement on a live connection; and a run without breaks of length mu reaches the state where every accepted message was forwarded exactly once and everything is acknowledged (c03_good_run_complete/_exists). "
    "c03_ok judges the trace: no PUBLISH n completes on any connection while the PUBREL is recorded; PUBREL saved only over the PUBLISH and after PUBREC was read.",
    "Trusted: Coq kernel; the Session model; harness; the definition of 'conforming broker' and 'connection' in BrokerWorld.v (stated in coverage.partial).",
    "Coq refinement + invariant proof + model/implementation correspondence")

hist_prop("C05",
    ["c05_resend_order", "c05_accept_position_alo", "c05_accept_position_eo"],
    ["wire order and DUP are proved for what resend, connect and the persisted publish write in any state satisfying the invariant (ResendOrder.v: c05_resend_writes*, c05_connect_order, c05_first_transmission, c05_batch_before_first_tx); the whole-history form 'one resend batch per connection, nothing else carries a QoS >= 1 PUBLISH' is judged on histories (c05_ok)",
     "corners stated by the theorems: DUP = 'sequence number below the submit counter', and the counter advances only when the write loop returns without error, so a first transmission whose every byte was accepted but whose last Write call reported an error is retransmitted WITHOUT DUP (dup_corner_accepted_but_failed); and if, with such a Write, the broker's PUBACK is processed before the error returns, acked = acc > sub, the next connect has an empty window and later publishes are only enqueued until the next reconnect (backlog_stuck_corner, vm_compute). Both need a Write that returns n = len(p) together with an error; the harness's connections never do that (n < len on error), so neither was reproduced against the real client and neither is classified as a finding",
     "concurrent publishers: order = sequence-semaphore order; the per-level sequence token is proved exclusive for every accepted trace of the L3 monitor (c05_seq_exclusive) and the real client's traces are tied to the monitor by inclusion; the reduction to atomic L2 steps is an assumption"],
    "C05 generator: as C01.",
    REFINE + "Corollaries: identifiers are assigned in acceptance order and the storage numbers of each group increase with acceptance order, which is what resend (sequence order) and restart (sort by storage number) rely on. ResendOrder.v: resend offers, in sequence order from the acknowledged counter, the stored packets with DUP exactly for sequence numbers below the submit counter at entry, up to the first failure; connect writes CONNECT first, then the at-least-once batch, then the exactly-once batch (PUBRELs have the lower numbers), and only then hands out the connection; a persisted publish writes exactly the packet it saved, without DUP, and only without a backlog. "
    "c05_ok judges the trace: first transmissions in acceptance order without DUP, retransmissions with DUP (free after a restart), per-connection order of PUBLISH and PUBREL.",
    "Trusted: Coq kernel; the Session model; harness.",
    "Coq refinement + invariant proof + model/implementation correspondence")

hist_prop("C17",
    ["c17_invariant", "c17_inflight_le_max", "c17_ids_distinct_alo", "c17_ids_distinct_eo", "c17_ids_range", "c17_ids_levels_disjoint", "c17_accept_id"],
    [
     "'ErrMax iff full, without blocking' is judged on histories; the model function is total (no blocking) by construction"],
    "C17 generator: AtLeastOnceMax/ExactlyOnceMax in {0,1,2,3,-1,16384,20000}, no Persistence faults.",
    REFINE + "Corollaries: in-flight count per level <= configured maximum <= 16384; identifiers of the window pairwise distinct across the 14-bit wrap, non-zero, in the range of their kind, the two kinds disjoint. Subscribe/unsubscribe identifiers: TxInv (pending identifiers pairwise distinct, non-zero, in the space of their kind, at most 512 pending) holds in every reachable state for every history including adoptions (c17_tx_invariant); the skip loop always finds a free identifier within its fuel; ErrMax iff 512 are pending, and then nothing is called (c17_subscribe_errmax_iff/_silent). "
    "c17_ok judges the trace: new identifier free, window within the limit, ErrMax exactly when full, subscribe/unsubscribe identifiers distinct among pending requests and in their range.",
    "Trusted: Coq kernel; the Session model; harness.",
    "Coq refinement + invariant proof (arithmetic mod 2^14) + model/implementation correspondence")

ALLSTATES = "The theorems are about the executable session model (Session.v) for ALL client states and ALL environment scripts; the model is tied to the real client by recorded histories on every run. "

hist_prop("C02",
    ["c02_adopt_exact", "c02_adopt_some", "c02_repeat", "c02_any_stop_point", "c02_order_independent", "c02_pinned_full_window_refuted"],
    ["the 64-bit storage counter must stay below 2^64 in every state along the history (adoption resets it to the largest stored number, so a bound on the final state alone would say nothing about earlier ones)",
     "the sequence-continues clause excludes key 0 (client identifier); FileSystem as a store is the subject of C19; both stores (volatile map via simStore) are exercised on histories"],
    "C02 generator: restart rate 6-12 % per step, so 1-5 stop/adopt cycles per history with publishes and acknowledgements in between; stop points are the API-call boundaries of the history; BOTH STORES: the corpus and every third random history run on the library's FileSystem store (scratch directory) behind the recording Persistence, the others on the in-memory map.",
    REFINE + "AdoptSession on the Persistence of any state satisfying the invariant is exact (c02_adopt_exact: a client, no warning, nothing deleted, same windows/identifiers/stages, storage sequence continued, invariant again) and composes for any number of cycles (c02_repeat); each abstract transition performs at most one Save/Delete, so stop points between Persistence operations are covered (c02_any_stop_point). Mixed histories (API calls interleaved with any number of stop + AdoptSession cycles, failed adoptions included) keep Good = OInv' + known_keys + markers_genuine in every state (c02_reachable_good_mixed_all); a failed adoption deletes nothing. The pinned counter reconstruction is refuted for a full PUBREL window (F22, repaired). c02_ok judges the trace (no warnings on an untampered store, delete/ack/order rules across restarts).",
    "Trusted: Coq kernel; Session model; harness. The former side conditions known_keys/markers_genuine are now invariants of every reachable state of mixed histories (c02_reachable_good_mixed), so c02_adopt_exact_reachable has no hypothesis beyond 'no Persistence failure during adoption' and 'limits not below the pending windows'.",
    "Coq proof (sorting by storage number, arithmetic mod 2^14) on top of refinement + invariant; model/implementation correspondence with restarts")

hist_prop("C04",
    ["c04_once_per_cycle", "c04_dupe_gets_pubrec", "c04_dupe_gets_pubrec_big", "c04_pubrel_gets_pubcomp", "c04_marker_before_pubrec"],
    ["closed loop (InboundWorld.v): InboundTie.v projects every step and every run of the executable session model onto the client part of the slim receiver (c04_tie_step_islim, c04_tie_run_islim: islim = (marker set of the store, pending PUBREC/PUBCOMP)), under invariants of step that are proved preserved: ascending keys, every marker record decodes (a damaged marker is deleted by AdoptSession, which the slim Restart does not do: C16's subject), inbound bytes are bytes; queue effects are InboundWorld's own environment; the broker is the MQTT 3.1.1 figure 4.3 sender deciding on the identifier only, its session survives, one FIFO connection at a time",
     "the window in which a second delivery is possible is wider than the BUG comment in client.go says: a plain process stop between the ReadSlices call that returned the message and the next one (which saves the marker and writes PUBREC) re-delivers after AdoptSession, without any Save error (window_second_delivery); at most one extra delivery per such stop (c04_once_per_cycle with the ghost i_lost) - this is what C07's ownership rule implies and the property excludes it",
     "recorded finding F25: when the BROKER starts a new session (CONNACK without session-present) the reception markers stay; the next message that reuses such an identifier is acknowledged and never returned (clean_session_restart_loses_message; reproduced by the scripted history 'F25')"],
    "C04 generator: broker-initiated QoS 2 publishes with retransmissions (same content, DUP), PUBREL after PUBREC, loss of acknowledgements, big messages (buffer 32/64), restarts.",
    ALLSTATES + "A PUBLISH whose marker is in the Persistence is never returned; a duplicate gets its PUBREC again at once; every PUBREL gets PUBCOMP (or it is kept for the retry); the marker is saved before the PUBREC is written. Closed loop (InboundWorld.v) with a conforming sending broker, under any interleaving of deliveries, flushes, connection breaks, reconnects (broker resends in order) and client restarts: each message is returned at most once per cycle unless the process stops between its delivery and the flush of its PUBREC (then at most once more per stop); a marker exists only while the broker holds that identifier for a message that was returned, so a new message under a reused identifier is never taken for a duplicate (c04_new_cycle_no_marker, what M3-C04b breaks); a fault-free run of bounded length completes every cycle exactly once (c04_good_run_exists). c04_ok judges the trace: no delivery while the marker exists, every passed PUBLISH/PUBREL answered.",
    "Trusted: Coq kernel; Session model; harness; the definition of the conforming sending broker and of the connection in InboundWorld.v. F25 recorded as known finding.",
    "Coq proof over all states/scripts of the model's reception handlers + closed-world invariant proof + model/implementation correspondence")

hist_prop("C07",
    ["c07_receive_writes_nothing", "c07_own_ack", "c07_no_ack_while_held", "c07_ack_first_on_next_call", "c07_pending_ack_shape"],
    ["'none is returned without eventually being acknowledged' is liveness: the acknowledgement stays pending until written (c07_ack_first_on_next_call keeps it on failure); eventual delivery assumes the application keeps calling ReadSlices and a good suffix"],
    "C07 generator: as C04 plus QoS 1, application pauses (other requests between ReadSlices calls), write failures of the acknowledgement itself.",
    ALLSTATES + "Receiving a PUBLISH writes nothing and enqueues exactly its own acknowledgement; a ReadSlices call that returns a message wrote nothing since receiving it; the next call writes the acknowledgement first (after the marker Save for PUBREC) and keeps it on failure. c07_ok judges the trace: every PUBACK/PUBREC written belongs to a message returned by an earlier call (or answers a marked duplicate).",
    "Trusted: Coq kernel; Session model; harness.",
    "Coq proof over all states/scripts + model/implementation correspondence")

hist_prop("C13",
    ["c13_violation_resets", "c13_other_types", "c13_suback_count", "c13_error_resets", "c13_big_error_resets", "c13_remlen_resets", "c13_redial",
     "c13_no_forged_progress", "c13_counters_in_order", "c13_records_in_order", "c13_release_in_order", "c13_errs_in_model"],
    ["'never panics' for the Go code is observed (recovered panics are events, no_panic on every history), the model has no panic value",
     "'never waits beyond PauseTimeout': proved in state-based form (every read of the connection is armed unless it is the first read of a peekPacket call entered with an empty buffer; ReadAll and the skip of a duplicate are armed throughout: c13_step_reads_armed, c13_reachable_reads_armed); the link 'empty buffer at that point = packet boundary of the delivered byte stream' is judged on histories by reads_armed (the one exception, after a failed ReadAll whose connection was closed, is shared by checker and Go code)",
     "allocation bound is observed (BigMessage.Size <= announced), not proved"],
    "C13 generator: hostile broker (reserved/client-only types, second CONNACK, zero/foreign/unsolicited identifiers, QoS 3, five-byte length, illegal SUBACK codes, count mismatch, malformed CONNACK) mixed into valid traffic, against clients with 0..n transfers at each stage.",
    ALLSTATES + "Every listed violation is a protocol-reset error; every handler error closes the connection, goes offline and the next ReadSlices redials; progress (counters, queue heads, record deletion) happens only through the in-order acknowledgement. c13_ok judges the trace: no panic, mid-packet reads armed, deletes only after the in-order ack was read, violating connections closed.",
    "Trusted: Coq kernel; Session model; harness.",
    "Coq case analysis over all packet types/states + model/implementation correspondence under a hostile scripted broker")

PROPS["C14"] = dict(PROPS.get("C14", {}))
hist_prop("C14",
    ["c14_not_submitted_nothing_written", "c14_request_outcomes", "c14_publish_classes", "c14_subscribe_classes", "c14_ping_classes", "c14_disconnect_classes",
     "c14_quit_classes", "c14_persisted_error_not_enqueued", "c14_persisted_accepted", "c14_completion_classes", "c14_canceled_only_by_quit",
     "c14_deny_end_disjoint", "c14_step_deny_end_disjoint", "c14_is_any_iff", "c14_lib_deny_end_disjoint", "c14_backoff_nil_iff", "c14_read_backoff_nil_iff_closed"],
    ["Backoff(errors.Join(ErrMax, SubscribeError)) returns the timer, not nil (ErrTreeTheorems.c14_backoff_mixed_counterexample); the library never builds such a value",
     "ReadBackoff(ErrClosed) with a BigMessage pending returns the released channel; not reachable through the documented calling sequence"],
    "C14 generator: general histories (all request kinds in all client states, quit timing, fault placement); second runner C14ERR: random error trees (depth <= 6, fan-out <= 4) from the real sentinel values through IsDeny/IsEnd/IsConnectionRefused/Backoff/ReadBackoff.",
    ALLSTATES + "Per method the result classes are exactly the documented ones; a not-submitted class leaves the world untouched (no byte); a failed persisted publish is not enqueued; quit gives only ErrCanceled/ErrAbandoned; IsDeny/IsEnd disjoint on all model errors; the classifier nonNilIsAny finds a target iff it occurs in an arbitrarily wrapped/joined tree. c14_ok judges the trace per call.",
    "Trusted: Coq kernel; Session model and ErrTree model (errors.Is/As from go1.26 errors/wrap.go); harness.",
    "Coq case analysis over methods x states + nested induction on error trees + model/implementation correspondence")
PROPS["C14"]["modules"] = ["HistChecks", "ErrTreeCheck"]
PROPS["C14"]["runners"] = [{"name": "C14", "synctest": True}, {"name": "C14ERR", "synctest": False}]

hist_prop("C16",
    ["c16_adopt_total", "c16_single_byte_damage_is_undecodable", "c16_truncated_is_undecodable", "c16_purge_keeps_good_records", "c16_adopt_changes_store_only_by_purge", "c16_adopt_of_consistent_store"],
    ["AdoptDamaged.v holds for ANY store with ascending keys, byte values, a usable client-identifier record (F15 otherwise) and no PUBREL forged with a valid checksum under a key outside the exactly-once space (rel_in_space; forged_pubrel_bricks is the counterexample; the property excludes forged records); 'completes them' is invariance under all later steps (DInv), not liveness",
     "after adopting a store with a gap the full invariant OInv' does not hold (leftovers stay in the publish key spaces: leftover_stays); what holds, and is kept by every later step, is DInv: every sequence number of the three windows has a genuine record of the right kind",
     "records abandoned by an adoption (dropped PUBREL range, gaps) stay in the Persistence and are reported again by later adoptions until overwritten"],
    "C16 generator: a session with transfers at every stage (3 at-least-once PUBLISH, PUBREL, 3 exactly-once PUBLISH, reception marker), then the Persistence is rewritten (byte flip, truncation, removal, stray entries, empty leftover; on PUBLISH, PUBREL, marker, client-identifier records; one or two records), then AdoptSession, connect, duplicates, new publishes, another restart; plus random histories; every scenario also on the library's FileSystem store (scratch directory), every third random history too.",
    ALLSTATES + "For ANY Persistence content AdoptSession terminates, deletes and counts every undecodable record and keeps the rest (c16_adopt_total); altered or truncated records are always undecodable (C15). After adopting a damaged store (AdoptDamaged.v): the returned client satisfies DInv and keeps it through every later history (c16_adopted_inv, c16_dinv_run); connect never meets a missing or corrupt record and in an accepting world writes CONNECT followed by exactly the surviving stored packets in order (c16_adopted_connects); a new publish never overwrites a record of a window (c16_adopted_accepts_new); every marker left decodes, so reception never fails on a corrupt record (c16_adopted_receives). c16_ok judges the trace: adoption is fatal only for Persistence failures or a pending count above the limit; after adoption no ReadSlices fails with a class-less error (missing/corrupt own record). Known finding F15 (client identifier record damaged or removed: connect fails / empty identifier) is recorded, not repaired.",
    "Trusted: Coq kernel; Session model; harness (store rewrites are applied to the model's map as well).",
    "Coq proof of totality over arbitrary stores + model/implementation correspondence on damage scenarios")

hist_prop("C18",
    ["c18_connect_log_shape", "c18_handshake_rejects", "c18_accept_iff", "c18_refused", "c18_wrong_header", "c18_bad_flags", "c18_eof", "c18_reject_closes",
     "c18_clean_session_once", "c18_no_more_clean", "c18_csem_monotone", "c18_failed_attempt_releases_waiters"],
    ["'requests issued while a connect attempt is in progress wait for its outcome': in the sequential model they are parked and released with ErrDown by a failed attempt (c18_failed_attempt_releases_waiters); release after a successful attempt races with the read routine and is excluded from sequential histories (L3)"],
    "C18 generator: dial failures, failures at any byte of CONNECT/CONNACK, return codes 1-5 and malformed CONNACKs, session-present x clean-session, failures during resend, repeated reconnects, requests issued offline.",
    ALLSTATES + "Every connect attempt has the shape Load, Dial, CONNECT (only), CONNACK reads (only), then close or resends-in-order and Online; the verdict on the CONNACK is exactly as specified; CleanSession is requested iff configured and nothing was established before, never again afterwards. c18_ok judges each connection's bytes with the independent parser.",
    "Trusted: Coq kernel; Session model; harness.",
    "Coq proof of the connect trace shape over all states/scripts + model/implementation correspondence")

PROPS["C09"] = {
    "modules": ["C09Check", "C09CheckProofs"],
    "theorems": ["c09_utf8_valid_iff", "c09_string_check_iff", "c09_topic_check_iff", "c09_deny_iff_invalid", "c09_no_valid_denied",
                 "c09_config_valid_iff", "c09_init_valid_iff", "c09_emitted_well_formed", "c09_emitted_bytes", "c09_emit_connect", "c09_emit_acks",
                 "c09_ping_disconnect_literal", "c09_identifiers_in_range", "c09_deny_no_trace", "c09_deny_world_untouched", "c09_deny_client_untouched",
                 "c09_step_deny_only_if_invalid", "c09_init_denied_no_trace", "... (46 in props/C09.v)"],
    "partial": ["bytes msg/password/will message and keep-alive < 65536 are typing hypotheses, not derived from validation",
                "a 256 MiB SUBSCRIBE is covered by the theorem and by the denial side only"],
    "rule": "stringCheck/topicCheck exhaustively on every 1- and 2-byte string, all 3- and 4-byte strings over 24 boundary bytes, boundary lengths 0,1,127,128,65535,65536, "
            "code points around every boundary; emitted packets of all kinds with remaining lengths across every width boundary (125..129, 257, 16381..16385, 65793, 2097149..2097153, "
            "16843009, 268435455/268435456), 540 CONNECT Config combinations, all acknowledgements; every invalid argument class x request kind with a following valid probe; "
            "Config.valid and InitSession cases. Non-trivial = every case; distinct = distinct term.",
    "assumptions": ["utf8.ValidString is modelled and compared on every string", "payloads above 8 KiB are compared by header, length and a Go-side tail comparison",
                    "errors are projected to the index in the deny table plus IsDeny, never message text"],
    "harness_timeout": 900,
    "level_text": "Coq theorems: the UTF-8 validator accepts exactly the concatenations of RFC 3629 encodings of scalar values; a request is denied iff some argument is invalid (first failing check in the documented order), no valid argument is denied; every non-denied request's packet parses with the independent MQTT 3.1.1 parser to exactly the requested fields, for all lengths (remaining-length widths by arithmetic); a denied request leaves the world and the client untouched. Tied to the real code by exhaustive/boundary differential runs.",
    "level_note": "Trusted: Coq kernel; models of utf8.ValidString and the packet composers (validated on every run); the independent parser Spec.v as the reading of the OASIS text; harness.",
    "technique": "Coq proof (iff-characterisations, round-trip laws for all lengths) + exhaustive/boundary model/implementation correspondence",
}

PROPS["C06"] = {
    "modules": ["C06Check"],
    "theorems": ["c06_peek_packet_exact", "c06_remaining_length_exact", "c06_fifth_length_byte_refused",
                 "c06_big_message_read_exact", "c06_alignment_unread_big", "c06_alignment_duplicate_big",
                 "c06_discard_exact", "c06_read_all_exact", "c06_stream_exact", "c06_unfragmented_exact",
                 "c06_fragmentation_invariant"],
    "partial": ["theorems are at L1 (bufio + peekPacket/discard/ReadAll + read_stream iteration over (first byte, size, body bytes)); topic/message split, Persistence markers, acknowledgements and the CONNACK handshake are modelled in C06Check.run_client and in Session.v and tied by cases, not proved at this level",
                "a run ending in a deadline-expiry error is only shown to have observed a prefix; that the code errs only at expiries without progress is checked on cases (c06_ok), not proved",
                "no general soundness theorem for c06_ok (Example c06_checker_accepts_model only)"],
    "rule": "per buffer size B in {16,32,64,256} (hook) random well-formed broker streams: CONNACK, PUBLISH QoS0/1/2 retain/dup, PUBACK/PUBREC/PUBCOMP/SUBACK/UNSUBACK/PINGRESP for requests the test placed, QoS2 duplicates and PUBREL; payloads 0,1,2,5,B-hdr-1..B-hdr+1,B-2..B+2,2B,3B+1; topics 1..min(B-4,24). "
            "Cuts: whole, per packet, 1-byte reads (+expiry at every cut), every single cut position (with and without expiry), random multi-cuts with and without progress-making expiries, expiries without progress (error expected), stall during the skip of a duplicate big message; histories at the default 128 KiB; bufio.Reader call scripts against the model of bufio. Non-trivial = more than 2 conn.Read calls.",
    "assumptions": ["bufio.Reader is modelled (fill/Peek/Discard/ReadByte/Read, latched error) and compared with go1.26.8 bufio on every run (BufioCase)",
                    "an expiry 'without progress' = Timeout answer to a conn.Read before which the deadline was re-armed since the previous conn.Read",
                    "a big PUBLISH needs topic+identifier within one buffer-load (documented in client.go); the generator keeps topics <= B-4 for reduced sizes",
                    "the CONNACK has one deadline for all four bytes (C18's scope): no expiries are injected inside it"],
    "harness_timeout": 900,
    "level_text": "Coq theorems for ALL buffer sizes >= 16, ALL streams and ALL chunkings (tapes of non-empty data segments and deadline expiries): peekPacket returns exactly the framed packet (or a timeout error), 1-4 byte remaining lengths decode exactly and a fifth byte is refused, the big-message path returns exactly the payload, discard/ReadAll leave the stream aligned, and two tapes with the same data give the same observations (fragmentation invariance; without expiries the run always completes). The model of bufio + read loops is tied to the real code by differential runs over every cut position, 1-byte reads, expiries and buffer sizes.",
    "level_note": "Trusted: Coq kernel; the bufio model (validated against go1.26.8 on every run); harness. Partial as listed: the split of a PUBLISH body into topic/identifier/message and the session effects are covered by the session model's correspondence, not by these L1 theorems.",
    "technique": "Coq proof by induction over the chunk tape (bufio refinement to the pending-bytes abstraction) + model/implementation correspondence over all cut positions",
}

PROPS["C15"]["modules"] = ["C15Check", "HistChecks"]
PROPS["C15"]["runners"] = [{"name": "C15"}, {"name": "C15S", "synctest": True}]
PROPS["C15"]["rule"] += (" Second runner C15S (session level): a running client with transfers at every stage meets a record that no longer decodes "
    "(client identifier, reception marker, pending PUBLISH, PUBREL; truncated to 0, 1, 11 bytes or one byte altered) without a restart, plus the 17 restart-damage scenarios; "
    "c15s_ok: every call that loaded an undecodable value fails (AdoptSession: warns).")
PROPS["C15"]["trusted_extra"] = SEQ_TB

L3TXT = ("Concurrency: the synchronisation skeleton (connSem, writeSem, the two seqSem, queues, context, done/abort) is modelled as a monitor automaton (Sync.v) "
         "over channel-operation events; recorded event traces of the real client under concurrent publishers, persisted publishers, Subscribe/Unsubscribe/Ping callers (mostly without quit), the read routine and 1-3 "
         "Close/Disconnect callers (synctest, randomised timing, connections whose Close takes a moment) must all be accepted by the monitor (trace inclusion); five gated scenarios force the interleavings of F6, F7 (C11 only), F20, "
         "'a writer stalled in conn.Write when the read routine meets a read error' and 'requests written to the dying connection while the read routine goes offline'. ")

hist_prop("C10",
    ["c10_error_leaves_connection", "c10_big_error_leaves_connection", "c10_redial", "c10_reset_then_redial", "c10_pending_released", "c10_connect_shape", "c10_own_writes_do_not_wait"],
    ["interleaving statements (SyncProofs/SyncProgress): a blocked read routine always waits for another goroutine that has an enabled, potential-decreasing event (c10_read_routine_never_self_blocked); from every reachable monitor state the read routine returns within 42 enabled events and all semaphores are handed back within 39 (c10_read_routine_returns, c10_tokens_released), assuming I/O gates return (connections are closed by the waiter first or have deadlines); fairness is not modelled; the real client is tied to the monitor by trace inclusion on sampled and gated schedules",
     "a request blocked in lockWrite spins (no blocking) while the write semaphore is pending and Online is still released, until ReadSlices notices the failure: CPU is burnt but the property's wording holds"],
    "C10 generator: general histories + ReadBackoff measured in virtual time; second runner SYNC (concurrent runs).",
    ALLSTATES + "Every error while reading/handling leaves the connection (close, offline, pending released) and the next ReadSlices redials; a failed attempt releases waiters with ErrDown; the read routine's own writes never wait for a connect. " + L3TXT +
    "ReadBackoff (BackoffBounds.v): the channel is nil exactly for the closed class (no BigMessage pending), 1000 ms for a Persistence error, the maximum for a refusal, otherwise the ramp-up min(max(2w, min), max) within [ReconnectWaitMin, ReconnectWaitMax], restarting at the minimum after a successful connect; no I/O. "
    "c10_ok judges sequential traces: redial after every offline return, pending requests released, ReadBackoff within [ReconnectWaitMin, ReconnectWaitMax] (exactly 1 s for Persistence errors, the maximum for refusals, nil only for ErrClosed).",
    "Trusted: Coq kernel; Session and Sync models; harness; fair Go scheduler. Liveness is sampled (watchdogs: one virtual hour, 20 s real time for spinning calls).",
    "Coq proof over all states/scripts (sequential) + monitor trace inclusion on concurrent runs")
PROPS["C10"]["modules"] = ["HistChecks", "SyncCheck"]
PROPS["C10"]["runners"] = [{"name": "C10", "synctest": True}, {"name": "SYNC10", "synctest": True}]

hist_prop("C11",
    ["c11_completion_classes", "c11_quit", "c11_canceled_only_by_quit", "c11_subscribe_outcomes", "c11_ping_outcomes", "c11_suback_count_mismatch", "c11_offline_releases"],
    ["'no call waits forever' is refuted by the recorded finding F7 (ping slot taken by another Ping's release path): reproduced on every run with the hooks as yield points, reported as KNOWN-FINDING",
     "closed world ReqWorld.v (slim client commuting with Session.v's request functions, conforming or hostile broker, one FIFO connection, Break/Quit/Close): correlation, at-most-once return and bounded completion are theorems of the SEQUENTIAL request machine; callers blocked in lockWrite that continue after a successful connect, Publish calls and adoption are outside it; the real client's interleavings are tied by the concurrent runs and gated scenarios",
     "recorded finding F26: 'no response is handed to another caller' is false after a request was abandoned by quit: the late PINGRESP of an abandoned Ping completes the next Ping (no identifier in PINGRESP); for Subscribe/Unsubscribe the same needs 8192 further identifier assignments (c11_response_handed_to_another_caller: reachable with a conforming broker; reproduced on the real client); every other delivered answer completes its own request or nobody (c11_answer_own_or_late)",
     "termination of Subscribe/Unsubscribe under all interleavings is not a theorem (mutex-protected map not in the L3 monitor)"],
    "C11 generator: Subscribe/Unsubscribe/Ping with SUBACK codes (failures in every position), late/duplicate/lost responses, quit before/after submission, connection loss and Close during the wait; runner SYNCF7 adds the F7 schedule and concurrent runs.",
    ALLSTATES + "A waiting request completes only with the documented classes; quit gives ErrCanceled/ErrAbandoned and releases the slot; a count-mismatch SUBACK fails that very request. Closed world (ReqWorld.v), any interleaving: a SUBACK/UNSUBACK for pid makes nobody return or exactly the unique holder of pid, with the failed filters computed from that request's own filter list (c11_suback_correlation); one packet completes at most one request; every request returns at most once, with one documented outcome (c11_returns_at_most_once); with a conforming broker and no abandoned request every delivered answer completes exactly the request it answers (c11_conforming_exact); connection loss settles all waiting requests in one step, Close completes them all, and a fault-free run of at most 2|c2b|+|b2c| steps leaves nobody waiting (c11_answer_run_exists). c11_ok judges traces: every completion is justified by the response carrying that request's own packet identifier (codes mapped to its filters in order). " + L3TXT,
    "Trusted: Coq kernel; Session and Sync models; harness; the broker/connection definitions of ReqWorld.v. F7 and F26 are genuine defects recorded in known_findings.txt.",
    "Coq proof over all states/scripts (sequential) + monitor trace inclusion + scheduled reproduction of the recorded finding")
PROPS["C11"]["modules"] = ["HistChecks", "SyncCheck"]
PROPS["C11"]["runners"] = [{"name": "C11", "synctest": True}, {"name": "SYNCF7", "synctest": True}]

hist_prop("C12",
    ["c12_disconnect_outcomes", "c12_disconnect_not_submitted", "c12_closed_requests", "c12_errs_in_model", "c12_csem_monotone"],
    ["no_chan_panic / token conservation / closed-for-good for ALL interleavings (SyncProofs) are in progress; until then the L3 monitor is tied by trace inclusion only",
     "'promptly' = every call returned within the watchdog on all sampled schedules, not a theorem",
     "recorded finding F23: after Close, ReadSlices first returns a left-over error (closed connection with a BigMessage pending, or the marker Save error) before ErrClosed"],
    "C12 generator: Close/Disconnect at random points of sequential histories, then further calls of every kind; runner SYNC: 1-3 concurrent Close/Disconnect callers (nil/open/closed quit) against publishers, persisted publishers and the read routine in every phase (dial, handshake, resend, read, write, toOffline).",
    ALLSTATES + L3TXT + "c12_ok (sequential) and sync_ok (concurrent) judge observations: no panic, no hang, Close/Disconnect return, afterwards every call returns ErrClosed and Online stays blocked, every pending exchange gets ErrClosed exactly when ReadSlices first reports it and stays open, a successful Disconnect makes DISCONNECT the last packet.",
    "Trusted: Coq kernel; Session and Sync models; harness; Go scheduler fairness. F23 recorded.",
    "Monitor trace inclusion on concurrent runs + Coq proof (sequential part) + observation checkers")
PROPS["C12"]["modules"] = ["HistChecks", "SyncCheck"]
PROPS["C12"]["runners"] = [{"name": "C12", "synctest": True}, {"name": "SYNC", "synctest": True}]

PROPS["C12"]["theorems"] = ["c12_no_chan_panic", "c12_closed_for_good", "c12_closed_implies", "c12_after_close_connsem", "c12_after_close_writesem",
    "c12_close_does_not_wait_on_itself", "c12_wait_for_acyclic", "c12_write_holder_progress", "c12_write_holder_enabled", "c12_f20_pinned_refuted",
    "c12_disconnect_outcomes", "c12_disconnect_not_submitted", "c12_errs_in_model"]
PROPS["C12"]["partial"] = ["progress (SyncProgress.v) is a bounded-schedule statement about the monitor: from every reachable state there is a schedule of at most 45 (Close) / 46 (Disconnect) enabled events after which the call has returned, and in game form every outcome of the designated goroutine's moves keeps the bound (c12_close_must_return); assumptions built into the monitor's events: E1 every I/O gate returns (the waiter closes the connection first at Close/Disconnect-with-quit/toOffline/abort; a deadline alone at Disconnect waiting for a writer, at connect's wait for the write semaphore, and with a Dialer that ignores its context), E2 a started goroutine eventually runs, E3 only the designated goroutine moves (Go's receive queues and fairness under unlimited new callers are not modelled)",
    "channels outside the monitor are not covered by any statement: the Online/Offline signal holders, the ping slot, the exchange channels, the WaitGroup of termCallbacks (its goroutines are shown to end)",
    "the L3 theorems are about faithful accepted traces of the monitor; faithfulness (one ReadSlices goroutine, monotone context, done closed once) is checked on every recorded trace",
    "recorded finding F23: after Close, ReadSlices first returns a left-over error (closed connection with a BigMessage pending, or the marker Save error) before ErrClosed",
    "signals (Online/Offline never both released) are observed (Online only), not in the monitor"]
PROPS["C12"]["level_text"] = PROPS["C12"]["level_text"].replace("Concurrency:", "Proved for every faithful accepted event sequence of the L3 monitor, any number of goroutines, any schedule: no channel panic, token conservation, closed for good, acyclic wait-for graph, Close never waits on itself, bounded progress of the write-token holder. Concurrency tie:")
PROPS["C08"]["theorems"].append("c08_write_token_exclusive")
PROPS["C08"]["partial"] = ["the whole-packets invariant (WholePackets.v: c08_run_conn_log_inv, c08_conn_whole_model) holds for map-mode Persistence holding only records the client saved (store_ok: established by init_sys, kept by every step), a valid Config (cfg_wf = what Config.valid guarantees) and API levels in range (op_ok); resend writes whatever the Persistence returns, so a forged record or a hostile scripted store puts non-packets on the wire (forged_record_is_resent, hostile_store_is_resent: vm_compute counterexamples kept in the file) — C16's subject",
    "dead connections are frozen at the level of accepted bytes and tape-consuming Write calls, not syntactically 'no empty Write'",
    "'success means written completely' for each request is the L1 theorem composed with the call-site lemmas; the per-request statement on traces is success_complete in c08_ok"]
PROPS["C08"]["level_text"] = PROPS["C08"]["level_text"].replace("the loops run inside the session model,", "WholePackets.v lifts this to the session model: every conn_write call site offers exactly one packet of the independent parser's language (or nothing), a failed write gives the connection up for good, and in every reachable state of every history (adoptions included) every connection's accepted bytes are whole packets followed by at most a prefix of one more, whole on the connection that holds the write token (c08_run_conn_log_inv; c08_conn_whole_model bridges to the boolean checker conn_whole); the loops run inside the session model,")
PROPS["C08"]["runners"] = [{"name": "C08", "synctest": True}, {"name": "SYNC08", "synctest": True}]
PROPS["C08"]["modules"] = ["C08Check", "SyncCheck"]
PROPS["C05"]["theorems"].append("c05_seq_exclusive")
PROPS["C10"]["theorems"] += ["c10_wait_for_acyclic", "c10_write_holder_waits_for_nothing", "c10_peek_packet_armed", "c10_peek_packet_buffered", "c10_discard_armed", "c10_read_all_armed"]

# tie (b): kernel-checked agreement of the model's constants with /repo's sources,
# attached to the properties whose theorems depend on those values
for _p in ("C06", "C08", "C09", "C13"):
    PROPS[_p]["tie"] = ["TieCodec"]
for _p in ("C01", "C02", "C03", "C04", "C05", "C07", "C11", "C16", "C17"):
    PROPS[_p]["tie"] = ["TieIds"]
PROPS["C14"]["tie"] = ["TieClass"]

# C17: direct tie of startTx (hook VerifStartTx) to the model's tx_pick on tables the histories cannot reach
PROPS["C17"]["modules"] = PROPS["C17"]["modules"] + ["TxCheck"]
PROPS["C17"]["runners"] = PROPS["C17"]["runners"] + [{"name": "C17TX"}]
PROPS["C17"]["rule"] += (" Second runner C17TX (M-pure, hook VerifStartTx): unorderedTxs.startTx on random tables and counters: candidates taken by the same kind (runs with holes), by the other kind, tables of 509-514 entries, the counter at the 13-bit wrap; compared with the model's limit test + tx_pick and judged by tx_ok (identifier free, non-zero, in the space of its kind; ErrMax exactly above 511 pending).")

# C13: gated scenarios with a hostile broker (no panic, no hang), judged by SyncCheck.sync_ok_c13
PROPS["C13"]["modules"] = PROPS["C13"]["modules"] + ["SyncCheck"]
PROPS["C13"]["runners"] = PROPS["C13"]["runners"] + [{"name": "SYNC13", "synctest": True}]
PROPS["C13"]["rule"] += (" Second runner SYNC13 (gated, real time): the broker acknowledges the identifier next in line (PUBACK resp. PUBREC) while the PUBLISH carrying it is still being written, then the write fails: no call may panic or hang (finding F27).")

# C14/C12: Close and Disconnect against a transport whose Close fails and every outcome of the DISCONNECT write
for _p in ("C14", "C12"):
    PROPS[_p]["modules"] = PROPS[_p]["modules"] + ["TermCheck"]
    PROPS[_p]["runners"] = PROPS[_p]["runners"] + [{"name": _p + "DISC", "synctest": True}]
    PROPS[_p]["rule"] += (" Runner C14DISC/C12DISC (M-seq): Close, Disconnect with an open and with a closed quit channel, from the states never-connected / online / closed, against nine scripts of the DISCONNECT write (partial, timeout, hard, closed, fully accepted yet failed) and a transport whose Close fails; compared with TermCheck.term_model (a set of allowed outcomes where the select is a free choice) and judged by term_ok (C14): Disconnect returns nil, ErrClosed, ErrDown, ErrCanceled or else ErrSubmit, the first three with no byte sent, nil with the whole packet sent; Close returns nil or the transport's error; resp. term_ok_c12 (C12): the connection was closed, Ping and ReadSlices afterwards get ErrClosed, nothing panicked or hung.")

# C11: "every request gets its own response" needs identifiers that no pending request holds: the
# startTx tie of C17 runs for C11 as well (a pending request outliving 8192 newer ones costs
# 8192 requests in a history; the hook reaches that table directly)
PROPS["C11"]["modules"] = PROPS["C11"]["modules"] + ["TxCheck"]
PROPS["C11"]["runners"] = PROPS["C11"]["runners"] + [{"name": "C17TX"}]
PROPS["C11"]["rule"] += (" Runner C17TX (M-pure, hook VerifStartTx) as for C17: the identifier given to a new Subscribe/Unsubscribe is held by no pending request, for tables and counters that histories reach only after 8192 requests.")

# C14: Close landing inside the Save of a persisted publish (gated scenario, real time)
PROPS["C14"]["modules"] = PROPS["C14"]["modules"] + ["SyncCheck"]
PROPS["C14"]["runners"] = PROPS["C14"]["runners"] + [{"name": "SYNC14", "synctest": True}]
PROPS["C14"]["rule"] += (" Runner SYNC14 (gated, real time): Close while PublishAtLeastOnce resp. PublishExactlyOnce is inside Persistence.Save (after its context check, before its write attempt); judged by sync_ok_c14: when the call returns an error no publish record is left in the Persistence; the trace is accepted by the L3 monitor.")

# C01/C03/C10: a hard (not close-type) write error of a persisted publish while the reader is parked in a silent connection
for _p in ("C01", "C03"):
    PROPS[_p]["modules"] = PROPS[_p]["modules"] + ["SyncCheck"]
    PROPS[_p]["runners"] = PROPS[_p]["runners"] + [{"name": "SYNC01", "synctest": True}]
    PROPS[_p]["rule"] += (" Runner SYNC01 (gated, real time): the client is online with a silent broker (the read routine parked in conn.Read without a deadline) when a persisted publish meets a write error that is not a close-type error; judged by sync_ok_c01: ReadSlices comes back, the redial succeeds, and the PUBLISH goes out on the second connection; the trace is accepted by the L3 monitor.")

# C06 at the session level: the stream stays aligned through Persistence faults and reconnects
PROPS["C06"]["modules"] = PROPS["C06"]["modules"] + ["HistChecks"]
PROPS["C06"]["runners"] = PROPS["C06"].get("runners", [{"name": "C06"}]) + [{"name": "C06S", "synctest": True}]
PROPS["C06"]["rule"] += (" Second runner C06S (M-seq): sequential histories of the whole client with inbound streams of all three levels, big messages, Persistence faults (3-15 %) at the reception markers, connection faults and restarts; compared with the session model and judged by c06s_ok: nothing is returned that the broker did not send (no_forged_delivery), a well-formed stream is not answered with a protocol reset (no_false_reset), and on each connection no QoS 0/1 PUBLISH before a returned one was skipped (no_loss).")
# C18: the gated connect scenarios (a persisted publish inside Persistence.Save while the redial completes)
PROPS["C18"]["modules"] = PROPS["C18"]["modules"] + ["SyncCheck"]
PROPS["C18"]["runners"] = PROPS["C18"].get("runners", [{"name": "C18", "synctest": True}]) + [{"name": "SYNC10", "synctest": True}]
PROPS["C18"]["rule"] += (" Runner SYNC10 (gated scenarios and concurrent runs, as for C10): among them a persisted publish that is inside Persistence.Save while the redial receives its CONNACK - requests issued during a connect attempt must come back, and the connect must complete.")

# checker clauses added in the mutation rounds 8-12 (stated here so that the evidence says what is judged)
_ADDED = {
 "C01": "c01_ok also demands that every connection carries whole packets ('written to the broker in full').",
 "C03": "c03_ok also demands pubrel_recorded: no PUBREL on the wire unless the PUBREL is recorded.",
 "C04": "c04_full = c04_ok + own_step (the ReadSlices call after an exactly-once message leaves its marker in the Persistence, whatever it returns, unless the marker Save failed in it or the PUBREL ended the cycle) + pubrec_after_marker (a PUBREC goes out only while the marker is stored) + no_false_reset (a well-formed stream is not answered with a protocol reset).",
 "C05": "c05_full = c05_ok + silent adoption of an untampered Persistence (an adoption that drops records switches the resend rule off) + applied limits within the identifier space.",
 "C07": "BigMessage returns are identified also when their payload never arrived completely (partial_publish); acked_before_next and settled_acks cover them.",
 "C10": "rd_step also demands 'noticed' (a ReadSlices error other than a Persistence error leaves the client offline); c10_ok includes no_false_reset.",
 "C12": "c12_gen also demands conns_closed_at_end: when ReadSlices reports ErrClosed every connection this client instance dialed has been closed.",
 "C13": "c13_full = c13_ok + rq_step (a request completes successfully only through a well-formed response of its own) + no_forged_delivery (everything returned is among the inbound PUBLISH packets).",
 "C14": "c14_ret also judges ReadBackoff (nil exactly for ErrClosed).",
 "C15": "C15S also runs the restart scenarios and demands seq_step: every saved record is numbered above every decodable record present.",
 "C18": "c18_ok also demands up_step (ErrDown only after a failed attempt) and lp_step (after a ReadSlices whose Load or dial failed nobody still waits for the write token).",
}
for _p, _t in _ADDED.items():
    PROPS[_p]["rule"] += " " + _t
