"""Per-property configuration of the check driver."""

TRUSTED_BASE = [
    "Coq 8.16.1 kernel (coqc; vm_compute used for reflection and to run the model; native_compute not used)",
    "no axioms declared; Print Assumptions output recorded per run",
    "hand-written Gallina model (coq/theories) of the Go code; tied to /repo by differential execution on this run's cases",
    "Go harness (/verif/harness) built from /repo with -tags verif: simulated net.Conn/Dialer/Persistence, event projection",
    "constant extractor gen/gen.py (regex over /repo/*.go) -> coq/gen/GenConsts.v",
    "Go toolchain go1.26.8 (GOTOOLCHAIN=local) compiling /repo",
]

PROPS = {
    "C15": {
        "modules": ["C15Check"],
        "theorems": ["c15_decode_encode", "c15_layout", "c15_single_byte_damage_detected", "c15_short_rejected",
                     "c15_checker_sound_enc"],
        "partial": [],
        "rule": "records: packet sizes 0..200 (thorough: ..70000) x sequence numbers {0,1,255,256,2^32-1,2^32,2^63,2^64-1,random}; "
                "per record: encodeValue output, decode(encode), sampled single-byte damage, every truncation length "
                "(sampled in the middle of long records), 60 arbitrary strings; Go-side exhaustive sweep position x 255 values for "
                "packets <= 24 bytes (survivors are handed to the Coq checker). Non-trivial = non-empty packet or damaged/truncated value; "
                "distinct = distinct Coq case term.",
        "assumptions": ["hash/fnv, encoding/binary are modelled (FNV-1a-32, LE64, BE32) and compared with the installed Go on every case",
                        "multi-byte damage is measured (see extra_measurements), not claimed"],
    },
}
