"""Per-property configuration of the check driver."""

TRUSTED_BASE = [
    "Coq 8.16.1 kernel (coqc; vm_compute used for reflection and to run the model; native_compute not used)",
    "no axioms declared; Print Assumptions output recorded per run",
    "hand-written Gallina model (coq/theories) of the Go code; tied to /repo by differential execution on this run's cases",
    "Go harness (/verif/harness) built from /repo with -tags verif: simulated net.Conn/Dialer/Persistence, event projection",
    "constant extractor gen/gen.py (regex over /repo/*.go) -> coq/gen/GenConsts.v",
    "Go toolchain go1.26.8 (GOTOOLCHAIN=local) compiling /repo",
]

PROPS = {
    "C15": {
        "modules": ["C15Check"],
        "theorems": ["c15_decode_encode", "c15_layout", "c15_single_byte_damage_detected", "c15_short_rejected",
                     "c15_checker_sound_enc"],
        "partial": [],
        "rule": "records: packet sizes 0..200 (thorough: ..70000) x sequence numbers {0,1,255,256,2^32-1,2^32,2^63,2^64-1,random}; "
                "per record: encodeValue output, decode(encode), sampled single-byte damage, every truncation length "
                "(sampled in the middle of long records), 60 arbitrary strings; Go-side exhaustive sweep position x 255 values for "
                "packets <= 24 bytes (survivors are handed to the Coq checker). Non-trivial = non-empty packet or damaged/truncated value; "
                "distinct = distinct Coq case term.",
        "assumptions": ["hash/fnv, encoding/binary are modelled (FNV-1a-32, LE64, BE32) and compared with the installed Go on every case",
                        "multi-byte damage is measured (see extra_measurements), not claimed"],
    },
}

PROPS["C20"] = {
    "modules": ["C20Check"],
    "theorems": ["publish_mock_reports_iff", "c20_publish_mock_silent_on_match", "c20_cleanup_after_surplus",
                 "subscribe_mock_reports_iff", "c20_subscribe_mock_silent_on_match", "c20_subscribe_compare",
                 "c20_readslices_mock_reports_iff", "c20_readslices_stub_stateless", "quit_closed_cancels",
                 "exchange_script", "c20_exchange_errfix", "c20_exchange_never_blocks", "no_panic",
                 "c20_checker_sound_pub", "c20_checker_sound_sub", "c20_checker_sound_rs",
                 "c20_checker_sound_exch", "c20_checker_sound_stubs"],
    "partial": [],
    "rule": "publish mock: exhaustive expectation lists (4 symbols) x invocation sequences (8 symbols = msg x topic x quit) "
            "up to length 2x2 + 1200 seeded samples from the <=3x<=3 space (thorough: exhaustive <=3x<=3, +5000 samples up to length 4); "
            "(un)subscribe mock: every pair of filter lists over {a,b} len<=3 incl. duplicates and empty x quit, sequences over "
            "2 expectation x 6 call symbols up to 2x2 + 200 samples of length 3 (thorough: <=3x<=3); exchange stub: every script "
            "len<=3 over {plain, ErrClosed, wrapped ErrClosed, Block{0}, Block{1ns}, nil} x errFix {nil, non-nil}, including the "
            "ones the constructor rejects; ReadSlices mock/stub, Publish/Subscribe/Unsubscribe stubs x quit {open, nil, closed}; "
            "6 Go-side private-copy checks. Each call sequence runs in one goroutine; Fatalf = Goexit ends it; Cleanup runs afterwards. "
            "Non-trivial = at least one expectation or invocation; distinct = distinct Coq term.",
    "assumptions": ["error values are compared by class only (nil, Canceled, ==ErrClosed, wraps ErrClosed, ExchangeBlock 0/>0, own plain errors)",
                    "the kind of a recorded t.Errorf is derived from argument count/types",
                    "delays are abstracted; the end of the exchange goroutine is detected with runtime.NumGoroutine",
                    "cleanup theorems assume len(want), len(calls) < 2^64 (after a surplus call the unsigned subtraction wraps: c20_cleanup_after_surplus)",
                    "'private copies' is checked on the Go side only (CopyCase); the model states statelessness"],
    "level_text": "Coq theorems by induction over ALL expectation lists and ALL invocation sequences for the mocks (report iff deviation; silent on match; quit => ErrCanceled; exchange script semantics; no panic), on a model of mqtttest tied to the real package by exhaustive small-alphabet differential runs with a recording testing.TB.",
    "level_note": "Trusted: Coq kernel; the model of mqtttest (validated on every run); the recording TB in the harness. Aliasing (private copies) has no Gallina counterpart and is checked on the Go side only.",
    "technique": "Coq proof by induction over call sequences + exhaustive model/implementation correspondence",
}

PROPS["C19"] = {
    "modules": ["C19Check", "C19CheckProofs"],
    "theorems": ["c19_save_atomic", "c19_failed_save_keeps_old", "c19_flush_before_visible", "c19_visible_only_when_flushed",
                 "c19_delete_atomic", "c19_list_subset_loadable", "c19_listed_iff_loadable", "c19_frame", "c19_interleavings_commute",
                 "c19_concurrent_atomic", "c19_names", "c19_saved_is_listed", "c19_checker_sound_view", "c19_checker_sound_save_kill",
                 "c19_big_closed_form"],
    "partial": [],
    "rule": "helper child (plain harness binary, real FileSystem code) under strace; scenarios: first write/overwrite x buffer splits "
            "(12 B .. 4 KiB literal) with other keys and spool leftovers in the directory; per scenario SIGKILL at the entry of every store "
            "syscall and after the last; RLIMIT_FSIZE stops inside the data write; Save sequences under injected faults (openat/each write/"
            "fsync/close/renameat error, also with failing cleanup unlink); Delete present/absent/failing; List on arbitrary names; large values "
            "by reference (sha256 compare in Go); goroutine-owner histories from concurrent runs. Non-trivial = every case; distinct = distinct term.",
    "assumptions": ["syscall-level model; the kernel is observed through strace/ptrace, not modelled",
                    "process stop = no further syscall; power loss / durability of the rename is outside",
                    "store directories only (names %05x and %05x.spool); a foreign upper-case name such as 0ABCD is listed but not loadable (Example c19_foreign_name_listed_not_loadable)",
                    "same-key concurrent Saves share one spool name and are not claimed",
                    "values above ~6 KiB are compared in Go (sha256), not in Coq"],
    "trusted_extra": ["strace 6.1 -e inject (ptrace), RLIMIT_FSIZE semantics of the kernel"],
    "level_text": "Coq theorems over ALL directories of store names, keys, values and ALL stop points (induction over syscall prefixes incl. cuts inside a data write): Save/Delete atomic per key, flush before visible, failed Save keeps old, List subset of loadable, frame and commuting interleavings for distinct keys; the syscall-level model is tied to the real FileSystem code by strace sequence comparison, SIGKILL sweeps at every syscall and RLIMIT_FSIZE cuts.",
    "level_note": "Trusted: Coq kernel; the syscall vocabulary and os/* behaviour as observed with strace on this kernel; ptrace injection. Durability against power loss is not part of the property.",
    "technique": "Coq proof by induction over syscall prefixes + strace-level model/implementation correspondence",
    "harness_timeout": 3000,
}
PROPS["C15"].update({
    "level_text": "Coq theorems over all packets/sequence numbers/positions/byte values for the record codec model (round trip, layout, single-byte damage detection by FNV-1a algebra, short values refused); the model is tied to encodeValue/decodeValue of /repo by differential execution on every run.",
    "level_note": "Trusted: Coq kernel, the hand-written model of hash/fnv + encoding/binary (validated against the installed Go on each case), the Go harness. 'Never transmitted/adopted/used as client identifier' is the subject of the session model (rugged_load in Session.v, C16).",
    "technique": "Coq proof (FNV-1a step injectivity mod 2^32) + model/implementation correspondence",
})

SEQ_TB = ["L2 session model Session.v (sequential view; API-level atomic steps) tied by recorded histories: every call into net.Conn/Dialer/Persistence with its answer, returns, completions, exchange events, Online signal",
          "scripted broker and fault injection in the harness only generate answers; synctest bubbles (virtual time, exact quiescence)"]

PROPS["C08"] = {
    "modules": ["C08Check"],
    "runners": [{"name": "C08", "synctest": True}],
    "theorems": ["c08_write_to", "c08_write_buffers_to", "c08_consume", "c08_write_buffers_to_pinned_refuted"],
    "partial": ["connection-log invariant of the session model (every reachable connection log = whole packets + one tail) is checked on traces (c08_ok), not yet a theorem",
                "mutual exclusion of concurrent writers (write token) is argued in DESIGN 6/C08, L3 not built yet"],
    "rule": "scripted: every split pattern (first/second buffer x accepted count x {timeout, hard, closed}, two-level timeouts) x {Publish, Publish with empty payload, "
            "PublishAtLeastOnce, PublishExactlyOnceRetained, Subscribe, Ping} after a quiet connect, followed by two ReadSlices; random: histories with write fault rates 10-35 %. "
            "Non-trivial = at least one failing/short environment answer; distinct = distinct Coq term.",
    "assumptions": ["net.Buffers.WriteTo on a non-TCP writer (one Write per buffer + consume) is modelled from go1.26 net/net.go and exercised through simConn; TCP writev takes the same consume path (by reading)",
                    "sequential histories: concurrent submitters are serialised by the write semaphore (not modelled here)"],
    "trusted_extra": SEQ_TB,
    "level_text": "Coq theorems for ALL outcome scripts of the two write loops (prefix property; success only if complete; consume leaves the exact suffix) + refutation of the pinned loop (F1); the loops run inside the session model, which is compared with the real client on exhaustive split patterns and on random histories, and the executable checker c08_ok judges every connection's byte stream with the independent parser.",
    "level_note": "Trusted: Coq kernel; models of net.Buffers/conn.Write; harness. Partial: the whole-packets invariant over all session histories and the L3 write-token exclusion are not theorems yet (see coverage.partial).",
    "technique": "Coq proof by induction over write-outcome scripts + model/implementation correspondence on exhaustive splits",
}
