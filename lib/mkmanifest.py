#!/usr/bin/env python3
"""Regenerate /verif/MANIFEST.json from lib/props.py and properties.jsonl."""
import json, os, sys, subprocess
ROOT = os.path.dirname(os.path.dirname(os.path.abspath(__file__)))
sys.path.insert(0, os.path.join(ROOT, "lib"))
import props as PROPS
ids = [json.loads(l)["id"] for l in open(os.path.join(ROOT, "properties.jsonl"))]
hooks = subprocess.run("git -C /repo log --format=%h --grep='^verif:' ", shell=True, capture_output=True, text=True).stdout.split()
m = {
    "version": 1,
    "setup_cmd": "./check --setup",
    "hooks": {"guard": "verif (Go build tag)",
              "enable": "go build/test -tags verif (the harness module replaces github.com/pascaldekloe/mqtt by /repo)",
              "baseline_off_cmd": "cd /repo && go test -vet=off -count=1 ./...",
              "source_commits": hooks, "add_only": True},
    "engines": [
        {"name": "coq-model", "path": "coq/", "serves_properties": sorted(PROPS.PROPS),
         "kind_free_text": "hand-written Gallina model + theorems (Coq 8.16.1); executable checkers run by vm_compute on cases recorded from the implementation"},
        {"name": "go-harness", "path": "harness/", "serves_properties": sorted(PROPS.PROPS),
         "kind_free_text": "differential driver of the real client built from /repo with -tags verif (simulated net.Conn/Dialer/Persistence, synctest bubbles, strace)"}],
    "checks": [], "not_applicable": [],
    "notes": "Every check = kernel re-check of props/Cxx.v + correspondence run of model vs implementation on freshly generated cases + the executable property checker on the implementation's traces; see DESIGN.md.",
}
for i in ids:
    c = PROPS.PROPS.get(i)
    if c and c.get("level_text"):
        m["checks"].append({
            "property_id": i, "quick_cmd": "./check %s quick" % i, "thorough_cmd": "./check %s thorough" % i,
            "evidence_file": "/verif/evidence/%s.json" % i, "replay_cmd_template": "./check %s --replay {path}" % i,
            "engine": "coq-model",
            "level_claimed": {"category": "proof", "text": c["level_text"], "design_ref": "DESIGN.md section 6, " + i},
            "level_note": c["level_note"], "technique": c["technique"]})
    else:
        m["not_applicable"].append({"property_id": i, "reason": "check not registered yet (work in progress, see DESIGN.md section 6); not a claim that the technique cannot apply"})
json.dump(m, open(os.path.join(ROOT, "MANIFEST.json"), "w"), indent=1)
print("checks:", [c["property_id"] for c in m["checks"]])
