#!/bin/bash
# every seeded change against the check of the property it breaks (scratch worktrees, /repo untouched)
cd /verif/seeded
for d in */; do
  id=${d%/}
  prop=$(python3 -c "import json,re; m=json.load(open('$id/meta.json')); print(re.findall(r'C\d\d', m.get('breaks',''))[0])")
  echo "$id $prop"
done | xargs -P 4 -L 1 bash -c '/verif/work/altmut.sh /verif/seeded/$0/patch.diff $0 $1 2>&1 | tail -1'
