#!/bin/bash
# usage: verify3.sh <dir-with-.out> <id>  -- confirm a mutant (<dir>/<id>.out) in a fresh worktree
base=$1; id=$2
export GOFLAGS=-mod=mod GOPROXY=off GOSUMDB=off GOTOOLCHAIN=local
src=$base/$id.out
w=/tmp/mutv/$id
rm -rf $w; git -C /repo worktree prune; git -C /repo worktree add -q --detach $w HEAD || exit 1
cd $w
dir=.
grep -q "^package mqtttest" $src/mut_demo_test.go && dir=mqtttest
cp $src/mut_demo_test.go $dir/
b=$(go test -vet=off -count=1 -run 'TestMutDemo' ./$dir 2>&1 | tail -1)
git apply $src/patch.diff || { echo "$id: patch does not apply"; exit 1; }
build=$(go build ./... 2>&1 | tail -1)
mut=$(go test -vet=off -count=1 -run 'TestMutDemo' ./$dir 2>&1 | grep -E "^(ok|FAIL|---)" | tail -1)
suite=""
for i in 1 2 3; do r=$(go test -vet=off -count=1 -skip TestMutDemo ./... 2>&1); suite="$suite $(echo "$r" | grep -c '^ok')ok/$(echo "$r" | grep -c '^FAIL')fail"; done
echo "$id | unchanged+demo: $b | build: ${build:-ok} | mutant+demo: $mut | suite x3:$suite"
cd /verif; git -C /repo worktree remove --force $w
