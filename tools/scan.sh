#!/bin/bash
# usage: scan.sh "<seeds>"  -- all 20 quick checks on /repo for each seed, 5 in parallel
for s in $1; do
  for p in C01 C02 C03 C04 C05 C06 C07 C08 C09 C10 C11 C12 C13 C14 C15 C16 C17 C18 C19 C20; do
    echo "$s $p"
  done
done | xargs -P 5 -L 1 bash -c 'r=$(VERIF_SEED=$0 /verif/check $1 quick 2>&1); echo "seed $0 $1 exit=$? viol=$(echo "$r" | grep -c "^VIOLATION") | $(echo "$r" | tail -1)"'
