#!/usr/bin/env python3
"""usage: mkprompts.py <round-dir> <id>=<prop> ...   e.g. mkprompts.py /tmp/mut9 C01f=C01
Writes <round-dir>/<id>.prompt.txt (task for an independent sub-agent: property text, its own
scratch worktree, the list of earlier changes for that property from seeded/*/meta.json) and
<round-dir>/<prop>.prop.json, and creates the worktree <round-dir>/<id> and <round-dir>/<id>.out."""
import json, sys, os, glob, subprocess
base = sys.argv[1]
props = {}
for l in open('/verif/properties.jsonl'):
    d = json.loads(l); props[d['id']] = d
earlier = {}
for m in sorted(glob.glob('/verif/seeded/*/meta.json')):
    d = json.load(open(m))
    for p in d['breaks'].replace(',', ' ').split():
        earlier.setdefault(p, []).append(d['what'])
T = open('/verif/tools/prompt_template.txt').read()
for a in sys.argv[2:]:
    mid, p = a.split('=')
    d = props[p]
    pj = {k: d[k] for k in ('id', 'title', 'statement', 'quantifier')}
    pj['anchors'] = {k: v for k, v in d['anchors'].items() if k != 'hook_needed'}
    js = json.dumps(pj, indent=1)
    open(f'{base}/{p}.prop.json', 'w').write(js)
    wt = f'{base}/{mid}'
    subprocess.run(['git', '-C', '/repo', 'worktree', 'add', '-q', '--detach', wt, 'HEAD'], check=True)
    os.makedirs(wt + '.out', exist_ok=True)
    avoid = '\n'.join('  - ' + w for w in earlier.get(p, [])) or '  (none yet)'
    s = T.replace('@WT@', wt).replace('@BASE@', base).replace('@PROP@', p).replace('@JSON@', js).replace('@AVOID@', avoid).replace('@ID@', mid)
    open(f'{base}/{mid}.prompt.txt', 'w').write(s)
    print(mid, p, len(earlier.get(p, [])), 'earlier changes')
