#!/bin/bash
# usage: altmut.sh <patch.diff> <name> <prop>...   -- run checks against a scratch worktree with the patch applied
patch=$1; name=$2; shift 2
wt=/tmp/mutrun/$name
git -C /repo worktree remove --force $wt >/dev/null 2>&1
git -C /repo worktree add --detach $wt HEAD >/dev/null 2>&1 || { echo "worktree failed"; exit 2; }
(cd $wt && git apply $patch) || { echo "apply failed"; exit 2; }
for p in "$@"; do
  ( VERIF_REPO=$wt /verif/check $p quick > /verif/work/altmut-$name-$p.log 2>&1; echo "$name $p exit=$? $(grep -c '^VIOLATION' /verif/work/altmut-$name-$p.log) $(grep '^VIOLATION' /verif/work/altmut-$name-$p.log | head -1 | sed 's/.*replay=//') | $(tail -1 /verif/work/altmut-$name-$p.log)" ) &
done
wait
git -C /repo worktree remove --force $wt >/dev/null 2>&1
